"""Engine E -- dump-point enumeration.  Runs in its own interpreter:

    python -m jfv.crashx ref    <job.json>   run a configuration with the real DumpingOutputHandler and the real
                                             Mersenne Twister; keep a copy of every dump; write the event log
    python -m jfv.crashx resume <job.json>   restore one dump exactly as jellyfysh/resume.py does, continue to the end
    python -m jfv.crashx plain  <job.json>   the same configuration without the dumping tagger

Observation is by class-level patches (dill pickles classes by reference, so the dump itself contains no harness
object): Scheduler.get_succeeding_event (who is next), TreeStateHandler.insert_into_global_state (what is committed),
InputOutputHandler.write (what is sampled; dumps are copied after the real write).
"""
import contextlib
import io
import json
import os
import shutil
import sys

LOG = []
MARKS = []
PROBES = []  # per dump (ref) / once after loading (resume): answers of all potential objects at fixed separations
HEAP = []  # per dump: (entries in the C heap, cached allocation in bytes); for a resume: the same after loading
STATE = {"depth": 0, "dump_dir": None, "ndumps": 0, "current": None}


def _digest(cnodes):
    def rec(c):
        u = c.value
        return [list(u.identifier), [x.hex() for x in u.position],
                None if u.velocity is None else [x.hex() for x in u.velocity],
                None if u.time_stamp is None else [u.time_stamp.quotient.hex(), u.time_stamp.remainder.hex()],
                [rec(x) for x in c.children]]
    return [rec(c) for c in cnodes]


def _heap_info(mediator):
    sch = getattr(mediator, "_scheduler", None)
    if sch is None or not hasattr(sch, "_allocated_memory_bytes"):
        return None
    try:
        return [len(sch.__getstate__()["heap_entries"]), sch._allocated_memory_bytes]
    except Exception:
        return None


def _potential_probe(mediator):
    """What every potential object of every event handler answers at a few fixed separations (hex floats): the objects
    restored from a dump must answer bit for bit what the dumped ones answered (deep-copied C objects vs objects rebuilt
    from their parameters)."""
    out = []
    try:
        handlers = mediator._activator.get_event_handlers()
    except Exception:
        return out
    import jellyfysh.setting as setting
    dim = setting.dimension
    L = [setting.system_lengths[d] if hasattr(setting, "system_lengths") and setting.system_lengths else 1.0
         for d in range(dim)]
    seps = [[0.21 * L[d] * (1 if d % 2 == 0 else -1) + 0.03 * d * L[d] for d in range(dim)],
            [0.43 * L[d] * (-1 if d == 0 else 1) - 0.07 * d * L[d] for d in range(dim)]]
    for idx, h in enumerate(handlers):
        for attr in ("_potential", "_bounding_potential"):
            pot = getattr(h, attr, None)
            if pot is None or not hasattr(pot, "derivative"):
                continue
            vals = []
            for sep in seps:
                for d in range(dim):
                    vel = [0.0] * dim
                    vel[d] = 1.0
                    try:
                        nch = getattr(pot, "number_charge_arguments", 0)
                        nsep = getattr(pot, "number_separation_arguments", 1)
                        if nsep != 1:
                            continue
                        v = pot.derivative(vel, list(sep), *([1.0] * nch))
                        vals.append(float(v).hex())
                    except Exception:
                        vals.append("exc")
            out.append([idx, type(h).__name__, attr, vals])
    return out


def install_patches():
    from jellyfysh.scheduler.heap_scheduler.heap_scheduler import HeapScheduler
    from jellyfysh.scheduler.list_scheduler import ListScheduler
    from jellyfysh.state_handler.tree_state_handler import TreeStateHandler
    from jellyfysh.input_output_handler.input_output_handler import InputOutputHandler
    from jellyfysh.input_output_handler.output_handler.dumping_output_handler import DumpingOutputHandler

    for cls in (HeapScheduler, ListScheduler):
        real = cls.get_succeeding_event

        def succ(self, _real=real):
            h = _real(self)
            STATE["current"] = type(h).__name__
            return h
        cls.get_succeeding_event = succ

    real_ins = TreeStateHandler.insert_into_global_state

    def ins(self, out_state):
        if STATE["depth"] == 0:
            LOG.append(["commit", STATE["current"], _digest(out_state)])
            if STATE.get("max_events") and len(LOG) > STATE["max_events"]:
                raise RuntimeError("the run did not end within %d logged events" % STATE["max_events"])
        STATE["depth"] += 1
        try:
            return real_ins(self, out_state)
        finally:
            STATE["depth"] -= 1
    TreeStateHandler.insert_into_global_state = ins

    real_write = InputOutputHandler.write

    def write(self, output_handler, *args):
        target = self._output_handlers_dictionary.get(output_handler)
        if isinstance(target, DumpingOutputHandler):
            with contextlib.redirect_stdout(io.StringIO()):
                real_write(self, output_handler, *args)
            if STATE["dump_dir"] is not None:
                shutil.copy(target._output_filename, os.path.join(STATE["dump_dir"], "dump_%d.dat" % STATE["ndumps"]))
            MARKS.append(len(LOG))
            HEAP.append(_heap_info(args[0]) if args else None)
            PROBES.append(_potential_probe(args[0]) if args else None)
            STATE["ndumps"] += 1
        else:
            if args and isinstance(args[0], (list, tuple)):
                LOG.append(["write", output_handler, _digest(args[0])])
            else:
                LOG.append(["write", output_handler, None])
    InputOutputHandler.write = write


def add_dumping(config, interval, filename):
    if not config.has_section("Dumping"):
        tg = config.get("TagActivator", "taggers") + ",\n dumping (no_in_state_tagger)"
        config.set("TagActivator", "taggers", tg)
        config.add_section("Dumping")
        config.set("Dumping", "create", "dumping")
        config.set("Dumping", "trash", "dumping")
        config.set("Dumping", "event_handler", "fixed_interval_dumping_event_handler")
        config.add_section("FixedIntervalDumpingEventHandler")
        config.set("FixedIntervalDumpingEventHandler", "output_handler", "dumping_output_handler")
        config.add_section("DumpingOutputHandler")
        config.set("StartOfRun", "create", config.get("StartOfRun", "create") + ", dumping")
        config.set("EndOfRun", "trash", config.get("EndOfRun", "trash") + ", dumping")
        config.set("InputOutputHandler", "output_handlers",
                   config.get("InputOutputHandler", "output_handlers") + ", dumping_output_handler")
    config.set("DumpingOutputHandler", "filename", filename)
    config.set("FixedIntervalDumpingEventHandler", "dumping_interval", repr(interval))


def remove_dumping(config):
    """The same run without the dumping tagger (shipped power_bounded_dump.ini has it built in)."""
    if not config.has_section("Dumping"):
        return
    taggers = [t.strip() for t in config.get("TagActivator", "taggers").replace("\n", " ").split(",")]
    config.set("TagActivator", "taggers", ",\n ".join(t for t in taggers if not t.startswith("dumping")))
    for sec in config.sections():
        for opt in ("create", "trash", "activate", "deactivate"):
            if config.has_option(sec, opt):
                vals = [v.strip() for v in config.get(sec, opt).replace("\n", " ").split(",")]
                config.set(sec, opt, ", ".join(v for v in vals if v != "dumping"))
    config.remove_section("Dumping")
    config.set("InputOutputHandler", "output_handlers", ", ".join(
        v.strip() for v in config.get("InputOutputHandler", "output_handlers").split(",")
        if v.strip() != "dumping_output_handler"))


def nearby_order(counts, layers, blob=None):
    """The order in which the real ExcludedCellsTagger hands out (active, occupant) in-states on a crowded grid
    (optionally for objects restored from a dill dump)."""
    from jfv.checks.c10 import build, _set_motion
    from jellyfysh.base.time import Time
    import dill
    dim = len(counts)
    side = [1.0 / c for c in counts]
    # one unit in the centre of every cell around the origin cell (and a few further away)
    import itertools
    positions = []
    for off in itertools.product((-1, 0, 1), repeat=dim):
        positions.append(tuple(((o + 0.5) * side[d]) % 1.0 for d, o in enumerate(off)))
    origin = tuple(0.5 * side[d] for d in range(dim))
    positions = tuple([origin] + [p for p in positions[::-1] if p != origin][:13])
    case = ("cells", (1.0,) * dim, tuple(counts), layers, -1, "atoms", positions, tuple(1.0 for _ in positions))
    if blob is None:
        cells, occ, sh, taggers, level, filt = build(case)
        b = sh.extract_from_global_state((0,))
        _set_motion(b, (0,), Time(0.0, 0.0), dim)
        sh.insert_into_global_state([b])
        occ.update(sh.extract_active_global_state())
        objs = (cells, occ, sh, taggers["excluded"])
    else:
        build(case)  # initialises the setting modules exactly as in the dumping process
        objs = dill.loads(blob)
    cells, occ, sh, tagger = objs
    order = [[list(x) for x in ids] for ids in tagger.yield_identifiers_send_event_time(sh.extract_active_global_state())]
    return objs, order


def main(argv):
    mode, jobfile = argv
    with open(jobfile) as f:
        job = json.load(f)
    here = os.path.dirname(os.path.dirname(os.path.abspath(__file__)))
    sys.path.insert(0, here)
    from jfv import bootstrap
    bootstrap.boot()
    if mode == "order":
        import base64
        blob = base64.b64decode(job["blob"]) if job.get("blob") else None
        _, order = nearby_order(job["counts"], job["layers"], blob)
        with open(job["out"], "w") as f:
            json.dump({"order": order, "error": None, "log": [], "marks": []}, f)
        return
    import random
    from jellyfysh.base.exceptions import EndOfRun
    install_patches()
    STATE["max_events"] = job.get("max_events")
    result = {"mode": mode, "error": None}
    try:
        if mode in ("ref", "plain"):
            from jfv import cfg
            from jfv.envdrive import Spec
            spec = Spec.from_json(job["spec"])
            cfg.set_scratch(os.path.join(job["workdir"], "out_" + mode))
            config = cfg.load(spec.ini, spec.overrides, spec.start)
            if mode == "ref":
                add_dumping(config, job["dumping_interval"], os.path.join(job["workdir"], "dump.dat"))
                STATE["dump_dir"] = job["workdir"]
            else:
                remove_dumping(config)
            med = cfg.build(config, spec.start, seed=job["seed"])
            random.seed(job["seed"] + 1000)
        else:
            import dill
            import jellyfysh.base.uuid as uuid
            import jellyfysh.setting as setting
            import jellyfysh.mediator  # noqa: F401  (as the imports of resume.py)
            with open(job["dump"], "rb") as f:
                med, dsetting, duuid, rstate = dill.load(f)
            med.update_logging()
            HEAP.append(_heap_info(med))
            PROBES.append(_potential_probe(med))
            setting.__dict__.update(dsetting.__dict__)
            uuid.__dict__.update(duuid.__dict__)
            random.setstate(rstate)
        try:
            with contextlib.redirect_stdout(io.StringIO()):
                med.run()
        except EndOfRun:
            result["ended"] = True
    except Exception as e:
        import traceback
        result["error"] = "%r\n%s" % (e, traceback.format_exc()[-2500:])
    result["log"] = LOG
    result["marks"] = MARKS
    result["heap"] = HEAP
    result["probes"] = PROBES
    with open(job["out"], "w") as f:
        json.dump(result, f)


if __name__ == "__main__":
    main(sys.argv[1:])
