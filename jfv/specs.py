"""Configuration families for engine A: shipped .ini files as they are, the same wiring with more root nodes (so that
surplus lists, several pair handlers in flight, liftings between several objects ... occur), and explicit start
configurations that force the interesting collisions."""
import os
import re
from configparser import ConfigParser

from . import cfg
from .envdrive import Spec

MULTI_HANDLER_TAGGERS = ("excluded_cells_tagger", "surplus_cells_tagger", "factor_type_map_in_state_tagger",
                         "cell_bounding_potential_tagger")


def short(ini):
    parts = ini[:-4].split("/")
    return "%s/%s" % (parts[-2][:7], parts[-1])


def shipped(horizon=25, seeds=(12345,)):
    out = []
    for ini in cfg.SHIPPED:
        for s in seeds:
            out.append(Spec(short(ini) + ("" if s == 12345 else "@%d" % s), ini, seed=s, horizon=horizon,
                            tags=("shipped",)))
    return out


def _tagger_sections(ini):
    """[(section name, tagger class)] from the TagActivator list of a shipped file."""
    from .bootstrap import REPO
    c = ConfigParser()
    c.read(os.path.join(cfg.config_dir(), ini))
    res = []
    for entry in c.get("TagActivator", "taggers").replace("\n", " ").split(","):
        m = re.match(r"\s*(\w+)\s*\((\w+)\)\s*", entry)
        if m:
            tag, cls = m.group(1), m.group(2)
            res.append(("".join(p.capitalize() for p in tag.split("_")), cls))
    return res, c


def scaled(ini, n_roots, seed=12345, horizon=25, start=None, extra=None, name=None, info=None):
    """The shipped wiring with n_roots root nodes and enough event handlers for every pair tagger."""
    secs, c = _tagger_sections(ini)
    ov = {}
    input_sec = "".join(p.capitalize() for p in c.get("InputOutputHandler", "input_handler").split("_"))
    if start is None:
        ov[(input_sec, "number_of_root_nodes")] = n_roots
    for sec, cls in secs:
        if cls in MULTI_HANDLER_TAGGERS:
            ov[(sec, "number_event_handlers")] = 4 * n_roots + 4
    ov.update(extra or {})
    return Spec(name or "%s*%d%s" % (short(ini), n_roots, "" if seed == 12345 else "@%d" % seed), ini, ov, start, seed,
                horizon, tags=("scaled",), info=info)


Q = "electric_charge"


def crowded_atoms():
    """4 like-charged atoms in the shipped 3x5x7 grid: three of them in one cell (occupant + surplus + active), one
    across the periodic face."""
    return [([0.05, 0.05, 0.05], {Q: 1.0}), ([0.10, 0.12, 0.08], {Q: 1.0}), ([0.20, 0.03, 0.11], {Q: 1.0}),
            ([0.95, 0.92, 0.05], {Q: 1.0})]


def crowded_atoms_face():
    """As crowded_atoms, but the initially active atom 0 sits just below the x-face of its cell: its first events are
    cell-boundary events while two other atoms (occupant + surplus) stay behind in the cell it leaves."""
    c = crowded_atoms()
    c[0] = ([0.325, 0.05, 0.05], {Q: 1.0})
    return c


def crowded_atoms_edge():
    """The initially active atom 0 is 8e-4 below the x-face of its cell and runs towards an occupant + surplus pair
    in the next cell: a surplus-cell event of (0, 2) can fire before the crossing, and the crossing comes before the
    first cell-veto event of a quiet leg -- between the two only the cell-boundary event keeps the recorded cell
    right."""
    return [([0.3325, 0.05, 0.05], {Q: 1.0}), ([0.45, 0.12, 0.05], {Q: 1.0}), ([0.40, 0.05, 0.06], {Q: 1.0}),
            ([0.95, 0.92, 0.05], {Q: 1.0})]


def crowded_atoms_5():
    return crowded_atoms() + [([0.30, 0.15, 0.13], {Q: 1.0})]


def dipole(pos, d=0.05, axis=0):
    p2 = list(pos)
    p2[axis] = (p2[axis] + d) % 1.0
    mid = [(a + (b if abs(b - a) < 0.5 else b + 1.0)) / 2 % 1.0 for a, b in zip(pos, p2)]
    return (mid, [(list(pos), {Q: 1.0}), (p2, {Q: -1.0})])


def crowded_dipoles():
    """4 dipoles: two in one cell of the 3x5x7 grid, one straddling a cell face, one straddling the periodic face."""
    return [dipole([0.05, 0.05, 0.05]), dipole([0.15, 0.10, 0.08], axis=1), dipole([0.31, 0.05, 0.1]),
            dipole([0.97, 0.5, 0.5])]


def crowded_dipoles_edge():
    """The initially active dipole's centre is 8e-4 below the x-face of its cell; two dipoles (occupant + surplus) wait
    in the next cell, one lies across the periodic face: the first events are cell-boundary events of a composite
    object while a surplus unit exists."""
    return [dipole([0.3075, 0.05, 0.05]), dipole([0.42, 0.08, 0.05], axis=1), dipole([0.45, 0.12, 0.08], axis=2),
            dipole([0.97, 0.5, 0.5])]


def close_dipoles():
    """Two dipoles almost in line along x (exactly aligned units are F7), 0.12 apart (the r^-6 repulsion between point masses of different dipoles is of
    order one at that distance), a third one far away: repulsion events in leaf mode and, after the mode switch, with
    the whole dipole as the active unit."""
    return [dipole([0.30, 0.5, 0.5]), dipole([0.47, 0.513, 0.494]), dipole([0.8, 0.1, 0.2], axis=1)]


def water(o_pos, a=0.3, L=10.0):
    """One SPC/Fw-like molecule (H, O, H) with the oxygen at o_pos, in the plane z = const."""
    import math
    b, ang = 1.012, 1.9764
    h1 = [o_pos[0] + b * math.cos(a), o_pos[1] + b * math.sin(a), o_pos[2]]
    h2 = [o_pos[0] + b * math.cos(a + ang), o_pos[1] + b * math.sin(a + ang), o_pos[2]]
    pts = [h1, list(o_pos), h2]
    centre = [sum(p[d] for p in pts) / 3.0 for d in range(3)]
    ch = [{Q: 0.41, "oxygen_indicator": 0.0}, {Q: -0.82, "oxygen_indicator": 1.0}, {Q: 0.41, "oxygen_indicator": 0.0}]
    return ([c % L for c in centre], [([x % L for x in p], c) for p, c in zip(pts, ch)])


def water_layer_start():
    """Two water molecules: the initially active oxygen sits just below the x-face of its oxygen cell (6 cells per
    side, 2 neighbour layers), the other oxygen three cells further: it is in the single non-nearby layer and becomes
    nearby when the active oxygen crosses the face."""
    return [water([1.662, 5.0, 5.0]), water([6.5, 5.2, 5.1], a=2.0)]


def water_molecule_edge_start():
    """Two water molecules: the *barycentre* of the first (the unit of the molecule cell system of the Coulomb family) is
    2e-4 below the x-face of its cell, the second molecule three cells further, in the single non-nearby layer: when the
    molecule crosses, the pair turns from a cell-veto target into a nearby pair."""
    return [water([1.5631, 5.0, 5.0]), water([6.0, 5.2, 5.1], a=2.0)]


def hard_disk_lattice(n_side=2, L=12.836):
    """Harness replacement of the PDB input of hard_disk_dipoles*.ini (MDAnalysis is not installed): n_side^2 dipoles
    of bond length 1.0 on a square lattice, well separated (disk radius 0.476)."""
    out = []
    a = L / n_side
    for i in range(n_side):
        for j in range(n_side):
            p1 = [a * (i + 0.3) % L, a * (j + 0.4) % L]
            p2 = [(p1[0] + 1.0) % L, p1[1]]
            mid = [((p1[0] + 0.5) % L), p1[1]]
            out.append((mid, [(p1, {"electric": 1.0}), (p2, {"electric": -1.0})]))
    return out


def hard_disk_dense():
    """3 hard-disk dipoles close together (collisions within a few legs), one across the periodic boundary."""
    L = 12.836
    out = []
    for p1 in ([1.0, 1.0], [2.2, 1.3], [12.5, 1.1]):
        p2 = [(p1[0]) % L, (p1[1] + 1.0) % L]
        mid = [p1[0], (p1[1] + 0.5) % L]
        out.append((mid, [(list(p1), {"electric": 1.0}), (p2, {"electric": -1.0})]))
    return out


TEMPLATE_DIR = os.path.join(os.path.dirname(os.path.abspath(__file__)), "templates")


def templates(horizon=40):
    return [Spec("tpl/soft_cuboid_cells", os.path.join(TEMPLATE_DIR, "soft_cuboid_cells.ini"), horizon=horizon,
                 tags=("template", "cells")),
            Spec("tpl/soft_cuboid_cells@9", os.path.join(TEMPLATE_DIR, "soft_cuboid_cells.ini"), seed=9,
                 overrides={("InitialChainStartOfRunEventHandler", "initial_direction_of_motion"): 2,
                            ("RandomInputHandler", "number_of_root_nodes"): 5}, horizon=horizon,
                 tags=("template", "cells")),
            Spec("tpl/soft_2d_cuboid", os.path.join(TEMPLATE_DIR, "soft_2d_cuboid.ini"), horizon=horizon,
                 tags=("template",)),
            # explicit start: non-overlapping disks (radius 0.11)
            Spec("tpl/hard_disks_cuboid_cells", os.path.join(TEMPLATE_DIR, "hard_disks_cuboid_cells.ini"), horizon=150,
                 start=[([0.2, 0.2], None), ([0.8, 0.6], None), ([1.3, 0.25], None)], tags=("template", "cells")),
            Spec("tpl/hard_disks_cuboid_cells@low", os.path.join(TEMPLATE_DIR, "hard_disks_cuboid_cells.ini"),
                 horizon=150, start=[([0.05, 0.03], None), ([0.7, 1.1], None), ([1.45, 0.5], None)],
                 overrides={("InitialChainStartOfRunEventHandler", "initial_direction_of_motion"): 1,
                            ("SingleIndependentActiveSequentialDirectionEndOfChainEventHandler", "chain_time"): "0.37"},
                 tags=("template", "cells")),
            Spec("tpl/soft_cuboid_sparse", os.path.join(TEMPLATE_DIR, "soft_cuboid_sparse.ini"), horizon=60,
                 tags=("template", "cells")),
            # the smallest periodic grid: two cells per side (the upper cell's lower boundary is L/2, the distance to the
            # next boundary is measured through the periodic face)
            Spec("tpl/soft_cuboid_sparse@2cells", os.path.join(TEMPLATE_DIR, "soft_cuboid_sparse.ini"), horizon=40,
                 overrides={("CuboidPeriodicCells", "cells_per_side"): "2, 2, 2"}, tags=("template", "cells")),
            # every unit in the last cell row of every direction: wraps through the periodic faces come first
            Spec("tpl/soft_cuboid_sparse+top", os.path.join(TEMPLATE_DIR, "soft_cuboid_sparse.ini"), horizon=60,
                 start=[([1.15, 0.93, 1.05], None), ([0.5, 0.97, 1.0], None), ([1.1, 0.4, 0.95], None)],
                 tags=("template", "cells")),
            Spec("tpl/soft_cuboid_sparse+top@z", os.path.join(TEMPLATE_DIR, "soft_cuboid_sparse.ini"), horizon=60,
                 start=[([1.15, 0.93, 1.05], None), ([0.5, 0.97, 1.0], None), ([1.1, 0.4, 0.95], None)],
                 overrides={("InitialChainStartOfRunEventHandler", "initial_direction_of_motion"): 2,
                            ("InitialChainStartOfRunEventHandler", "initial_active_identifier"): 1},
                 tags=("template", "cells"))]


def has_cells(spec):
    c = cfg.load(spec.ini)
    return c.has_option("TagActivator", "internal_states")


def has_composites(spec):
    c = cfg.load(spec.ini)
    ih = c.get("InputOutputHandler", "input_handler")
    if ih == "random_input_handler":
        return c.get("RandomInputHandler", "random_node_creator") != "atom_random_node_creator"
    return True


def families(tier, horizon=25):
    """List of specs for a tier."""
    specs = shipped(horizon) + templates()
    J = "2018_JCP_149_064113/"
    specs += [
        scaled(J + "coulomb_atoms/cell_veto.ini", 4, start=crowded_atoms(), horizon=horizon, name="coulomb/cell_veto+crowd4"),
        scaled(J + "coulomb_atoms/cell_bounded.ini", 4, start=crowded_atoms(), horizon=horizon,
               name="coulomb/cell_bounded+crowd4"),
        scaled(J + "coulomb_atoms/cell_veto.ini", 4, start=crowded_atoms_face(), horizon=horizon,
               name="coulomb/cell_veto+face4"),
        scaled(J + "coulomb_atoms/cell_bounded.ini", 4, start=crowded_atoms_face(), horizon=horizon,
               name="coulomb/cell_bounded+face4"),
        # four atoms in one cell: one occupant and TWO surplus units next to the active one
        scaled(J + "coulomb_atoms/cell_bounded.ini", 5, start=crowded_atoms_5(), horizon=16,
               name="coulomb/cell_bounded+crowd5"),
        scaled(J + "coulomb_atoms/cell_veto.ini", 4, start=crowded_atoms_edge(), horizon=12,
               name="coulomb/cell_veto+edge4"),
        scaled(J + "coulomb_atoms/cell_bounded.ini", 4, start=crowded_atoms_edge(), horizon=12,
               name="coulomb/cell_bounded+edge4"),
        scaled(J + "coulomb_atoms/power_bounded.ini", 3, horizon=horizon),
        # as built by `run.py -vv`: the debug branches of mediator, scheduler and state handler are taken
        scaled(J + "dipoles/dipole_factors_inside_first.ini", 3, horizon=horizon,
               name="dipoles/dipole_factors_inside_first*3+debug", info={"debug_logging": True}),
        Spec("coulomb/cell_veto+debug", J + "coulomb_atoms/cell_veto.ini", horizon=horizon, tags=("shipped",),
             info={"debug_logging": True}),
        # dumps inside the horizon (the shipped interval is 1100): the pickled state must be consistent in itself
        Spec("coulomb/power_bounded_dump+dumps", J + "coulomb_atoms/power_bounded_dump.ini", horizon=horizon,
             overrides={("FixedIntervalDumpingEventHandler", "dumping_interval"): "0.29"}, tags=("shipped",)),
        # "late in a very long run": every lazy-deletion counter of the heap scheduler a few trashes below 2^32
        scaled(J + "coulomb_atoms/power_bounded.ini", 4, horizon=horizon, name="coulomb/power_bounded*4@2^32",
               info={"preset_counters": 2 ** 32 - 4}),
        scaled(J + "dipoles/dipole_motion.ini", 3, start=close_dipoles(), horizon=horizon,
               name="dipoles/dipole_motion+close3"),
        Spec("dipoles/dipole_motion@2^32", J + "dipoles/dipole_motion.ini", horizon=horizon, tags=("shipped",),
             info={"preset_counters": 2 ** 32 - 3}),
        scaled(J + "dipoles/cell_veto.ini", 4, start=crowded_dipoles(), horizon=horizon, name="dipoles/cell_veto+crowd4"),
        scaled(J + "dipoles/cell_bounded.ini", 4, start=crowded_dipoles(), horizon=horizon,
               name="dipoles/cell_bounded+crowd4"),
        scaled(J + "dipoles/cell_veto.ini", 4, start=crowded_dipoles_edge(), horizon=12, name="dipoles/cell_veto+edge4"),
        scaled(J + "dipoles/cell_bounded.ini", 4, start=crowded_dipoles_edge(), horizon=12,
               name="dipoles/cell_bounded+edge4"),
        scaled(J + "dipoles/dipole_factors_inside_first.ini", 3, horizon=horizon),
        scaled(J + "dipoles/atom_factors.ini", 3, horizon=horizon),
        scaled(J + "water/coulomb_cell_veto_lj_cell_veto.ini", 3, horizon=horizon),
        scaled(J + "water/coulomb_cell_veto_lj_cell_veto.ini", 2, start=water_layer_start(), horizon=horizon,
               name="water/coulomb_cell_veto_lj_cell_veto+layer"),
        scaled(J + "water/coulomb_cell_veto_lj_cell_veto.ini", 2, start=water_molecule_edge_start(), horizon=horizon,
               name="water/coulomb_cell_veto_lj_cell_veto+medge"),
        scaled(J + "water/coulomb_power_bounded_lj_cell_bounded.ini", 3, horizon=horizon),
        scaled("hard_disk_dipoles/hard_disk_dipoles.ini", 4, start=hard_disk_lattice(2), horizon=horizon,
               name="hard_di/hard_disk_dipoles+lat4"),
        scaled("hard_disk_dipoles/hard_disk_dipoles_cells.ini", 3, start=hard_disk_dense(), horizon=horizon,
               name="hard_di/hard_disk_dipoles_cells+dense3"),
        # rotated (non axis-aligned) velocities: long horizon, cheap (only end-of-chain draws)
        scaled("hard_disk_dipoles/hard_disk_dipoles.ini", 3, start=hard_disk_dense(), horizon=200,
               name="hard_di/hard_disk_dipoles+dense3",
               extra={("SingleIndependentActiveSequentialDirectionEndOfChainEventHandler", "chain_time"): "0.37"}),
        Spec("hard_di/single_hard_disk_dipole~long", "hard_disk_dipoles/single_hard_disk_dipole.ini", horizon=200,
             overrides={("SingleIndependentActiveSequentialDirectionEndOfChainEventHandler", "chain_time"): "0.041"},
             tags=("shipped",)),
        scaled("hard_disk_dipoles/hard_disk_dipoles_cells.ini", 4, start=hard_disk_lattice(2), horizon=horizon,
               name="hard_di/hard_disk_dipoles_cells+lat4"),
    ]
    if tier == "thorough":
        specs += shipped(horizon, seeds=(7, 2024))
        specs += [
            scaled(J + "coulomb_atoms/cell_veto.ini", 5, start=crowded_atoms_5(), horizon=horizon,
                   name="coulomb/cell_veto+crowd5"),
            scaled(J + "coulomb_atoms/cell_veto.ini", 6, seed=3, horizon=horizon),
            scaled(J + "dipoles/dipole_factors_outside_first.ini", 3, horizon=horizon),
            scaled(J + "dipoles/dipole_factors_ratio.ini", 3, horizon=horizon),
            scaled(J + "dipoles/cell_veto.ini", 5, seed=5, horizon=horizon),
            scaled(J + "water/coulomb_cell_veto_lj_inverted.ini", 3, horizon=horizon),
            scaled(J + "water/coulomb_power_bounded_lj_inverted.ini", 3, horizon=horizon),
            scaled("hard_disk_dipoles/hard_disk_dipoles_cells.ini", 9, start=hard_disk_lattice(3), horizon=horizon,
                   name="hard_di/hard_disk_dipoles_cells+lat9"),
        ]
    return specs


TIME_OPTIONS = ("chain_time", "chain_length", "sampling_interval", "dumping_interval")


def fast_variant(spec, default_summary):
    """If the default execution covered less than 1.5 chain times, derive the same wiring with every time scale
    (chain time, mode-switch chain lengths, sampling / dumping intervals) shortened by one common factor such that
    about three chains fit into the horizon.  Create / trash / activate lists and all handlers are untouched."""
    T = default_summary.get("final_time")
    if not T or T <= 0 or spec.name.endswith("~fast"):
        return []
    c = cfg.load(spec.ini, spec.overrides)
    chain = None
    for sec in c.sections():
        if c.has_option(sec, "chain_time"):
            chain = float(c.get(sec, "chain_time"))
    if chain is None or T >= 1.5 * chain:
        return []
    # 0.9137: keep the shortened time scales incommensurate with event times of periodic motions (no artificial ties)
    f = 0.9137 * T / (3.0 * chain)
    ov = dict(spec.overrides)
    for sec in c.sections():
        for opt in TIME_OPTIONS:
            if c.has_option(sec, opt):
                ov[(sec, opt)] = repr(float(c.get(sec, opt)) * f)
    return [Spec(spec.name + "~fast", spec.ini, ov, spec.start, spec.seed, spec.horizon, tags=spec.tags + ("fast",),
                 info=spec.info)]
