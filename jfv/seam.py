"""The `random` seam: every source of randomness jellyfysh uses is the global `random` module (plus one
`from random import randint` binding).  `Seam` replaces those functions by scripted ones, logs every draw, and proves
ownership: the hidden Mersenne Twister is seeded before and compared after, so a draw that bypassed the seam is a
harness error rather than silently unexplored nondeterminism.
"""
import random as _random

from .core import HarnessError

_NAMES = ["random", "uniform", "expovariate", "randint", "choice", "randrange", "gauss", "normalvariate", "shuffle",
          "sample", "choices", "getrandbits", "betavariate", "triangular", "vonmisesvariate", "gammavariate",
          "lognormvariate", "paretovariate", "weibullvariate", "randbytes"]
_ORIG = {n: getattr(_random, n) for n in _NAMES if hasattr(_random, n)}
_EXTRA_BINDINGS = [("jellyfysh.event_handler.single_independent_active_periodic_direction_end_of_chain_event_handler",
                    "randint")]


class Seam:
    """policy(kind, args, index) -> answer.  Kinds handled: random, uniform, expovariate, randint, choice.
    Anything else raises HarnessError (the code under test would be using a draw this seam does not own)."""

    def __init__(self, policy):
        self.policy = policy
        self.log = []
        self._installed = False

    # scripted functions ------------------------------------------------------------------------------------------
    def _draw(self, kind, args):
        ans = self.policy(kind, args, len(self.log))
        self.log.append((kind, args, ans))
        return ans

    def _random(self):
        return self._draw("random", ())

    def _uniform(self, a, b):
        return self._draw("uniform", (a, b))

    def _expovariate(self, lambd=1.0):
        return self._draw("expovariate", (lambd,))

    def _randint(self, a, b):
        return self._draw("randint", (a, b))

    def _choice(self, seq):
        return seq[self._draw("choice", (len(seq),))]

    def _unsupported(self, name):
        def f(*a, **k):
            raise HarnessError("code under test called random.%s, which the seam does not script" % name)
        return f

    def install(self):
        import importlib
        import sys
        _random.seed(123456789)
        self._state = _random.getstate()
        scripted = {"random": self._random, "uniform": self._uniform, "expovariate": self._expovariate,
                    "randint": self._randint, "choice": self._choice}
        for n in _ORIG:
            setattr(_random, n, scripted.get(n, self._unsupported(n)))
        self._saved_bindings = []
        for modname, attr in _EXTRA_BINDINGS:
            mod = sys.modules.get(modname)
            if mod is None:
                try:
                    mod = importlib.import_module(modname)
                except Exception:
                    continue
            if hasattr(mod, attr):
                self._saved_bindings.append((mod, attr, getattr(mod, attr)))
                setattr(mod, attr, scripted[attr])
        self._installed = True
        return self

    def uninstall(self):
        if not self._installed:
            return
        for n, f in _ORIG.items():
            setattr(_random, n, f)
        for mod, attr, f in self._saved_bindings:
            setattr(mod, attr, f)
        self._installed = False
        if _random.getstate() != self._state:
            raise HarnessError("the hidden random generator was advanced: some draw bypassed the scripted seam")

    def __enter__(self):
        return self.install()

    def __exit__(self, *exc):
        self.uninstall()
        return False


def scripted(answers):
    """Policy from a list of unit answers u in [0,1): uniform(a,b) -> a+(b-a)u, random -> u, choice/randint by index
    (answers for those are integers)."""
    it = {"i": 0}

    def policy(kind, args, index):
        if it["i"] >= len(answers):
            raise HarnessError("scripted answers exhausted at draw %d (%s%r)" % (index, kind, args))
        u = answers[it["i"]]
        it["i"] += 1
        if kind == "uniform":
            return args[0] + (args[1] - args[0]) * u
        if kind == "random":
            return u
        if kind == "expovariate":
            return u
        if kind == "randint":
            return args[0] + u
        if kind == "choice":
            return u
        raise HarnessError("unscripted kind " + kind)
    return policy
