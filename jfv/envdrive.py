"""Driver of engine A: specs (configuration + start state), templates, deviation-bounded enumeration."""
import collections
import hashlib
import io
import contextlib

from . import cfg, par
from .core import HarnessError
from .envx import Execution, Policy
from .seam import Seam

_SETTING_MODULES = ["jellyfysh.setting", "jellyfysh.setting.hypercubic_setting",
                    "jellyfysh.setting.hypercuboid_setting"]


class Spec:
    def __init__(self, name, ini, overrides=None, start=None, seed=12345, horizon=25, tags=(), info=None):
        self.info = dict(info or {})
        self.name = name
        self.ini = ini
        self.overrides = dict(overrides or {})
        self.start = start
        self.seed = seed
        self.horizon = horizon
        self.tags = tuple(tags)

    def to_json(self):
        return {"name": self.name, "ini": self.ini, "overrides": [[s, o, str(v)] for (s, o), v in
                                                                 sorted(self.overrides.items())],
                "start": self.start, "seed": self.seed, "horizon": self.horizon, "info": self.info}

    @staticmethod
    def from_json(d):
        def tup(x):
            return tuple(tup(y) for y in x) if isinstance(x, list) else x
        start = d.get("start")
        if start is not None:
            start = [(list(r[0]), [(list(p), c) for p, c in r[1]] if isinstance(r[1], list) else r[1]) for r in start]
        return Spec(d["name"], d["ini"], {(s, o): v for s, o, v in d.get("overrides", [])}, start, d.get("seed", 12345),
                    d.get("horizon", 25), info=d.get("info"))


def _capture_globals():
    import sys
    import importlib
    snap = {}
    for m in _SETTING_MODULES:
        mod = importlib.import_module(m)
        snap[m] = {k: v for k, v in vars(mod).items()
                   if not k.startswith("__") and not isinstance(v, type(sys)) and not isinstance(v, type)
                   and not (callable(v) and getattr(v, "__module__", None) == m and k not in ("random_position",))
                   and k not in ("logging", "random", "sys", "_logger", "List", "MutableSequence", "Sequence",
                                 "Callable", "ModuleType")}
    from jellyfysh.activator.tagger.factor_type_maps import FactorTypeMaps
    snap["_ftm"] = FactorTypeMaps._instance
    return snap


def _restore_globals(snap):
    import importlib
    for m in _SETTING_MODULES:
        mod = importlib.import_module(m)
        for k, v in snap[m].items():
            setattr(mod, k, v)
    from jellyfysh.activator.tagger.factor_type_maps import FactorTypeMaps
    FactorTypeMaps._instance = snap["_ftm"]


def build_template(spec):
    import dill
    config = cfg.load(spec.ini, spec.overrides, spec.start)
    if spec.info.get("debug_logging"):
        # the run as `run.py -vv` builds it: every component caches "debug logging is on" at construction and then takes
        # its debug branches (which must only log).  The records themselves go nowhere.
        import logging
        lg = logging.getLogger("jellyfysh")
        old_level, old_prop = lg.level, lg.propagate
        if not any(isinstance(h, logging.NullHandler) for h in lg.handlers):
            lg.addHandler(logging.NullHandler())
        logging.disable(logging.NOTSET)
        lg.setLevel(logging.DEBUG)
        lg.propagate = False
        try:
            med = cfg.build(config, spec.start, spec.seed)
        finally:
            lg.setLevel(old_level)
            lg.propagate = old_prop
            logging.disable(logging.WARNING)
    else:
        med = cfg.build(config, spec.start, spec.seed)
    return dill.dumps({"med": med, "globals": _capture_globals()})


def instantiate(template):
    import dill
    d = dill.loads(template)
    _restore_globals(d["globals"])
    return d["med"]


def execute(template, baseline, deviations, horizon, monitors, info=None):
    med = instantiate(template)
    policy = Policy(baseline, deviations)
    with Seam(policy):
        ex = Execution(med, policy, horizon, monitors, info).run()
    policy.assert_all_hit()
    return ex


_TEMPLATES = {}


def _tpl(spec):
    if spec.name not in _TEMPLATES:
        _TEMPLATES[spec.name] = build_template(spec)
    return _TEMPLATES[spec.name]


def _summary(spec, baseline, deviations, ex):
    return {"spec": spec.name, "baseline": baseline, "deviations": sorted(deviations.items(), key=repr),
            "violations": list(ex.violations), "draws": list(ex.policy.draws), "outcome": ex.outcome(),
            "commits": len(ex.commits), "legs": ex.legs, "ended": ex.ended,
            "handlers": {k: v for k, v in ex.stats.items() if not k.startswith(("c17_", "c04_", "c01_", "c18_", "c10_", "c09_"))},
            "c01": {k: v for k, v in ex.stats.items() if k.startswith(("c01_", "c18_", "c10_", "c09_"))},
            "c04_thinned": ex.stats.get("c04_thinned_events", 0),
            "writes": len(ex.writes), "c17_samples": ex.stats.get("c17_samples", 0),
            "not_ended": ex.stats.get("c17_not_ended", 0), "final_time": None if ex.last_time is None else ex.last_time[0] + ex.last_time[1]}


def run_item(item):
    """item = (spec, baseline, [deviation dict, ...], horizon, monitors[, baseline draw keys]) -> list of summaries
    (template from cache).  With the baseline's draw keys given, every single-deviation execution is followed up:
    draws of the *same handler at the same leg* that exist only because of the deviation (the confirmation draw of an
    event that now fires, the lifting choice) are deviated as well -- otherwise they would only ever receive their
    baseline answer.  A follow-up is the compound environment answer "this handler's event fires and is rejected"."""
    spec, baseline, devs_list, horizon, monitors = item[:5]
    base_keys = item[5] if len(item) > 5 else None
    tpl = _tpl(spec)
    out = []
    for devs in devs_list:
        ex = execute(tpl, baseline, devs, horizon, monitors, spec.info)
        s = _summary(spec, baseline, devs, ex)
        if devs:
            s["draws"] = None  # only the default execution's draw list is needed by the enumerator
        out.append(s)
        if base_keys is not None and len(devs) == 1:
            (k0, a0), = devs.items()
            if k0[0] == "resume":
                continue
            fresh = [d for d in ex.policy.draws if d[0] not in base_keys and d[0][0] == k0[0]
                     and d[0][2:4] == k0[2:4]]
            for key, nalt, _ in fresh[:3]:
                for a in range(nalt - 1):
                    d2 = {k0: a0, key: a}
                    ex2 = execute(tpl, baseline, d2, horizon, monitors, spec.info)
                    s2 = _summary(spec, baseline, d2, ex2)
                    s2["draws"] = None
                    s2["followup"] = True
                    out.append(s2)
    return out


def build_all(specs, cores):
    def b(spec):
        try:
            return spec.name, build_template(spec), None
        except HarnessError:
            raise
        except Exception as e:
            import traceback
            return spec.name, None, "%r\n%s" % (e, traceback.format_exc()[-1500:])
    failures = []
    for name, tpl, err in par.pmap(b, specs, cores):
        if err is not None:
            failures.append((name, err))
        else:
            _TEMPLATES[name] = tpl
    return failures


def explore(specs, monitors, k, baselines, cores, max_per_baseline=None, derive=None, resume_legs=(),
            followup=False):
    """Enumerate all executions with <= k deviations around each baseline for every spec.
    derive(spec, default summary) may return further specs (e.g. the same wiring with all time scales shortened so
    that end-of-chain / sampling events fall inside the horizon); they are explored in the same way.
    Returns (summaries of violating executions, stats)."""
    specs = list(specs)
    failures = build_all(specs, cores)
    stats = {"executions": 0, "outcomes": set(), "per_spec": collections.OrderedDict(), "capped": False,
             "handlers": collections.Counter(), "build_failures": failures, "derived": []}
    bad = []
    live = [s for s in specs if s.name in _TEMPLATES]
    # level 0: default executions
    items = [(s, b, [{}], s.horizon, monitors) for s in live for b in baselines]
    defaults = {}
    for (s, b, _, _, _), res in zip(items, par.pmap(run_item, items, cores)):
        defaults[(s.name, b)] = res[0]
    if derive is not None:
        extra = []
        for s in live:
            extra += derive(s, defaults[(s.name, baselines[0])]) or []
        if extra:
            stats["build_failures"] += build_all(extra, cores)
            extra = [s for s in extra if s.name in _TEMPLATES]
            items = [(s, b, [{}], s.horizon, monitors) for s in extra for b in baselines]
            for (s, b, _, _, _), res in zip(items, par.pmap(run_item, items, cores)):
                defaults[(s.name, b)] = res[0]
            live += extra
            specs += extra
            stats["derived"] = [s.name for s in extra]
            stats["derived_specs"] = extra
    level = []
    for s in live:
        ps = stats["per_spec"].setdefault(s.name, {"executions": 0, "outcomes": set(), "draws": 0, "commits": 0})
        for b in baselines:
            r = defaults[(s.name, b)]
            _account(stats, ps, r, bad)
            ps["draws"] = max(ps["draws"], len(r["draws"]))
            ps["commits"] = max(ps["commits"], r["commits"])
            if k >= 1:
                devs = [{key: a} for (key, nalt, ch) in r["draws"] for a in range(nalt - 1)]
                # one more kind of environment answer: the run is dumped and resumed at the start of leg k
                if resume_legs:
                    devs += [{("resume", leg): 0} for leg in resume_legs if leg <= r["legs"]]
                if max_per_baseline is not None and len(devs) > max_per_baseline:
                    devs = devs[:max_per_baseline]
                    stats["capped"] = True
                level.append((s, b, devs))
    # level 1
    chunk = 12
    items = []
    for s, b, devs in level:
        bk = frozenset(d[0] for d in defaults[(s.name, b)]["draws"]) if followup else None
        for j in range(0, len(devs), chunk):
            items.append((s, b, devs[j:j + chunk], s.horizon, monitors, bk))
    second = []
    for (s, b, dl, _, _, _), res in zip(items, par.pmap(run_item, items, cores)):
        ps = stats["per_spec"][s.name]
        for r in res:
            _account(stats, ps, r, bad)
            if r.get("followup"):
                stats["followups"] = stats.get("followups", 0) + 1
    # level 2 (thorough): deviations at a later draw of each level-1 execution -- needs that execution's draw list
    if k >= 2:
        items = [(s, b, dl, s.horizon, monitors, True) for (s, b, dl, _, _, _) in items]
        for (s, b, dl, _, _, _), res in zip(items, par.pmap(_run_item_level2, items, cores)):
            ps = stats["per_spec"][s.name]
            for r in res:
                _account(stats, ps, r, bad)
    return bad, stats


def _run_item_level2(item):
    spec, baseline, devs_list, horizon, monitors, _ = item
    tpl = _tpl(spec)
    out = []
    for devs in devs_list:
        (k0, a0), = devs.items()
        ex = execute(tpl, baseline, devs, horizon, ())
        draws = ex.policy.draws
        i0 = next(i for i, d in enumerate(draws) if d[0] == k0)
        for i in range(i0 + 1, len(draws)):
            for a in range(draws[i][1] - 1):
                d2 = {k0: a0, draws[i][0]: a}
                ex2 = execute(tpl, baseline, d2, horizon, monitors, spec.info)
                s = _summary(spec, baseline, d2, ex2)
                s["draws"] = None
                out.append(s)
    return out


def _account(stats, ps, r, bad):
    stats["executions"] += 1
    ps["executions"] += 1
    stats["outcomes"].add((r["spec"], r["outcome"]))
    ps["outcomes"].add(r["outcome"])
    stats["handlers"].update(r["handlers"])
    stats["c17_samples"] = stats.get("c17_samples", 0) + r.get("c17_samples", 0)
    stats["not_ended"] = stats.get("not_ended", 0) + r.get("not_ended", 0)
    stats["c04_thinned"] = stats.get("c04_thinned", 0) + r.get("c04_thinned", 0)
    for k, v in (r.get("c01") or {}).items():
        stats[k] = stats.get(k, 0) + v
    if r["violations"]:
        bad.append(r)


def replay_case(case, monitors):
    """case = {"spec": spec json, "baseline": b, "deviations": [[i, a], ...], "horizon": H} -> list of keys"""
    spec = Spec.from_json(case["spec"])
    tpl = build_template(spec)
    def tup(x):
        return tuple(tup(y) for y in x) if isinstance(x, list) else x
    ex = execute(tpl, case["baseline"], {tup(k): int(a) for k, a in case["deviations"]}, case["horizon"], monitors,
                 spec.info)
    return ex
