"""C06 -- the scheduler always yields a live event with the smallest candidate time.

Engine B (explicit-state search over operation sequences on the *real* schedulers against a reference model):

  alphabet   push(h, t)  for a handler h without a live event and t >= last returned time (mediator protocol)
             trash(h)    for a handler with a live event
             get         get_succeeding_event on heap and list scheduler
             pickle      dump + load both schedulers, continue on the copies
  states     a state is the operation history reaching it; it is rebuilt on fresh real objects for every transition
             (no copying of live objects, so the pickling code under test is only exercised by the explicit op);
             states are merged by a canonical form that contains everything the future can depend on: the heap array
             (time, handler, counter per entry, in array order), the deletion counters, the cached allocation size, the
             allocation high-water mark, the list scheduler's list, both 'last returned' times, and the reference.
  oracle     at every get: reference (dict handler -> time) has a live finite event  => heap and list both return a
             handler that is live with exactly the minimal (quotient, remainder); only infinite live events => list
             returns one of them, heap may raise SchedulerError; nothing live => both raise SchedulerError.  No other
             exception from any operation.  In every visited state a *drain* (get + trash until empty, on a rebuilt
             copy) must produce all live finite events in non-decreasing order.
  start      empty; heaps pre-filled with 61..70 dead entries (crosses the 64 -> 128 reallocation; lazy deletion below
             the root; shrink + pickle); deletion counters preset just below 2^32 (OverflowError -> delete_events ->
             counter reset branch); a second time alphabet with quotients 2^40 / 2^52.
A C driver (generated, compiled with clang -fsanitize=address,undefined) runs the same alphabet on heap.c alone.
"""
import hashlib
import os
import pickle
import subprocess
import tempfile
import shutil

from .. import par
from ..core import HarnessError
from ..fl import dec, enc

INF = float("inf")
TIMES = {
    "small": [(0.0, 0.25), (0.0, 0.5), (1.0, 0.25), (1.0, 0.5), (2.0, 0.0), (INF, INF)],
    "large": [(2.0 ** 40, 0.25), (2.0 ** 40, 0.25 + 1e-9), (2.0 ** 40 + 1.0, 0.0), (2.0 ** 52, 0.25), (2.0 ** 52, 0.5),
              (INF, INF)],
}


class H:
    """An event handler stand-in (identity semantics, picklable)."""

    def __init__(self, n):
        self.n = n

    def __repr__(self):
        return "H%d" % self.n


_HEAP_ORDERS = {}


def heap_orders(n):
    """All arrangements of ranks 0..n-1 in an array of length n that satisfy the min-heap order."""
    if n not in _HEAP_ORDERS:
        import itertools
        _HEAP_ORDERS[n] = [p for p in itertools.permutations(range(n))
                           if all(p[(j - 1) // 2] < p[j] for j in range(1, n))]
    return _HEAP_ORDERS[n]


class State:
    def __init__(self, family, nh):
        from jellyfysh.scheduler.heap_scheduler.heap_scheduler import HeapScheduler
        from jellyfysh.scheduler.list_scheduler import ListScheduler
        from jellyfysh.base.time import Time
        kind = family[0]
        self.family = family
        self.times = TIMES[family[-1]]
        self.hs = [H(i) for i in range(nh)]
        self.heap, self.lst = HeapScheduler(), ListScheduler()
        self.ref = {}
        self.last = None
        self.high = 0  # allocation high-water mark (number of entries ever simultaneously in the C array)
        self.stopped = False
        if kind == "prefill":
            # dead entries of all handlers with early times: push + trash
            for j in range(family[1]):
                h = self.hs[j % nh]
                t = Time(float(j % 2), 0.25 + 0.5 * ((j // 2) % 2))
                for s in (self.heap, self.lst):
                    s.push_event(t, h)
                    s.trash_event(h)
            self.high = family[1]
        elif kind == "prefill_counter":
            # K entries of all handlers with mixed times (some will be live, see below), then counters just below 2^32:
            # the OverflowError -> delete_events branch then works on a heap with entries in several subtrees
            import itertools
            pattern = [(1.0, 0.5), (0.0, 0.25), (2.0, 0.0), (0.0, 0.5), (1.0, 0.25)]
            for j in range(family[1]):
                h = self.hs[j % nh]
                q, r = pattern[j % len(pattern)]
                t = Time(q + 3.0 * (j // 7), r)
                for s_ in (self.heap, self.lst):
                    s_.push_event(t, h)
                    s_.trash_event(h)
            self.high = family[1]
            for h in self.hs:
                try:
                    self.heap._minimal_valid_counter[h] = family[2]
                except AttributeError as e:
                    raise HarnessError("cannot preset deletion counters: %r" % (e,))
        elif kind == "layout":
            self.laid = False
        elif kind == "counter":
            for h in self.hs:
                try:
                    self.heap._minimal_valid_counter[h] = family[1]
                except AttributeError as e:
                    raise HarnessError("cannot preset deletion counters: %r" % (e,))

    def enabled(self):
        if self.stopped:
            return
        if self.family[0] == "layout" and not self.laid:
            n, nstale = self.family[1], self.family[2]
            import itertools
            for pi, perm in enumerate(heap_orders(n)):
                for slots in itertools.combinations(range(n), nstale):
                    yield ("layout", pi, slots)
            return
        for i in range(len(self.hs)):
            if i in self.ref:
                yield ("trash", i)
            else:
                for k, t in enumerate(self.times):
                    if self.last is None or not (t < self.last):
                        yield ("push", i, k)
        yield ("get",)
        yield ("pickle",)

    def entries(self):
        st = self.heap.__getstate__()
        return st

    def canon(self):
        st = self.heap.__getstate__()
        ents = tuple((q, r, h.n, c) for q, r, h, c in st["heap_entries"])
        counters = tuple(sorted((h.n, c) for h, c in st.get("_minimal_valid_counter", {}).items()))
        lastret = st.get("_last_returned_event")
        lastret = None if lastret is None else (lastret[0].quotient, lastret[0].remainder)
        lst = tuple((e.time.quotient, e.time.remainder, e.event_handler.n) for e in self.lst._times)
        ll = self.lst._last_returned_event[0]
        key = (ents, counters, lastret, st.get("_allocated_memory_bytes"), self.high, lst,
               (ll.quotient, ll.remainder), tuple(sorted(self.ref.items())), self.last, self.stopped, getattr(self, 'laid', None))
        return hashlib.blake2b(repr(key).encode(), digest_size=16).digest()

    def apply(self, op):
        """Apply one operation to both real schedulers and the reference; returns a violation (key, msg) or None."""
        from jellyfysh.base.time import Time, inf
        from jellyfysh.base.exceptions import SchedulerError
        name = op[0]
        try:
            if name == "layout":
                # array slot j receives rank perm[j]; pushing in slot order needs no sift (perm is heap-ordered), so
                # the C array is exactly the layout.  Slots in op[2] are stale entries of handler 0 (push + trash);
                # every other slot is the live event of its own handler.  Handler 0's counter is then set to 2^32:
                # its next push takes the OverflowError -> delete_events -> counter reset branch.
                perm = heap_orders(self.family[1])[op[1]]
                nxt = 1
                for j, rank in enumerate(perm):
                    t = (0.0, 0.03125 * (rank + 1))
                    tt = Time(*t)
                    if j in op[2]:
                        for s_ in (self.heap, self.lst):
                            s_.push_event(tt, self.hs[0])
                            s_.trash_event(self.hs[0])
                    else:
                        for s_ in (self.heap, self.lst):
                            s_.push_event(tt, self.hs[nxt])
                        self.ref[nxt] = t
                        nxt += 1
                self.high = len(perm)
                self.heap._minimal_valid_counter[self.hs[0]] = 2 ** 32
                self.laid = True
                return None
            if name == "push":
                t = self.times[op[2]]
                tt = inf if t[0] == INF else Time(*t)
                h = self.hs[op[1]]
                self.heap.push_event(tt, h)
                self.lst.push_event(tt, h)
                self.ref[op[1]] = t
                if t[0] != INF:
                    n = len(self.heap.__getstate__()["heap_entries"])
                    self.high = max(self.high, n)
                return None
            if name == "trash":
                h = self.hs[op[1]]
                self.heap.trash_event(h)
                self.lst.trash_event(h)
                del self.ref[op[1]]
                return None
            if name == "pickle":
                self.heap, self.lst, self.hs = pickle.loads(pickle.dumps((self.heap, self.lst, self.hs)))
                self.high = len(self.heap.__getstate__()["heap_entries"])
                return None
        except Exception as e:
            return ("op-exception", "%s raised %r" % (self.fmt(op), e))
        # get
        finite = {k: v for k, v in self.ref.items() if v[0] != INF}
        res = {}
        for nm, s in (("heap", self.heap), ("list", self.lst)):
            try:
                res[nm] = ("ok", s.get_succeeding_event())
            except SchedulerError as e:
                res[nm] = ("err", str(e)[:160])
            except Exception as e:
                return ("get-exception", "%s scheduler: get_succeeding_event raised %r" % (nm, e))
        if not self.ref:
            for nm in ("heap", "list"):
                if res[nm][0] != "err":
                    return ("empty-no-error", "%s scheduler returned %r although no event is live" % (nm, res[nm][1]))
            return None
        if not finite:
            if res["heap"][0] == "ok":
                h = res["heap"][1]
                if not (isinstance(h, H) and h.n in self.ref):
                    return ("returns-dead", "heap scheduler returned %r which has no live event" % (h,))
            if res["list"][0] != "ok" or res["list"][1].n not in self.ref:
                return ("list-infinite", "list scheduler: %r with only infinite live events" % (res["list"],))
            self.last = (INF, INF)
            self.stopped = True  # the list scheduler is now armed at +inf; not continued (allowed by the statement)
            return None
        want = min(finite.values())
        for nm in ("heap", "list"):
            if res[nm][0] != "ok":
                return ("live-not-returned", "%s scheduler raised SchedulerError(%s) although live events %r exist"
                        % (nm, res[nm][1], self.fmt_ref()))
            h = res[nm][1]
            if not isinstance(h, H) or h.n not in self.ref:
                return ("returns-dead", "%s scheduler returned %r whose event is trashed / never pushed; live: %r"
                        % (nm, h, self.fmt_ref()))
            if self.ref[h.n] != want:
                return ("not-minimal", "%s scheduler returned %r with live time %r but the minimal live time is %r; "
                        "live: %r" % (nm, h, self.ref[h.n], want, self.fmt_ref()))
        self.last = want
        return None

    def drain(self):
        """get + trash until nothing finite is live: every live finite event must come out, in order."""
        from jellyfysh.base.exceptions import SchedulerError
        out = []
        ref = dict(self.ref)
        for _ in range(len(ref) + 1):
            finite = {k: v for k, v in ref.items() if v[0] != INF}
            if not finite:
                break
            want = min(finite.values())
            for nm, s in (("heap", self.heap), ("list", self.lst)):
                try:
                    h = s.get_succeeding_event()
                except SchedulerError as e:
                    return ("drain", "%s scheduler raised %s while draining; still live: %r" % (nm, str(e)[:120], ref))
                except Exception as e:
                    return ("drain-exception", "%s scheduler raised %r while draining" % (nm, e))
                if not isinstance(h, H) or h.n not in ref or ref[h.n] != want:
                    return ("drain", "%s scheduler returned %r while draining; live %r, minimal %r" % (nm, h, ref, want))
                out.append(h.n)
            # trash the handler the heap returned in both
            k = out[-2]
            try:
                self.heap.trash_event(self.hs[k])
                self.lst.trash_event(self.hs[k])
            except Exception as e:
                return ("drain-exception", "trash raised %r while draining" % (e,))
            del ref[k]
        return None

    def fmt(self, op):
        if op[0] == "layout":
            return "layout(array ranks %r, stale slots of H0 %r, counter[H0]=2^32)" % (
                heap_orders(self.family[1])[op[1]], tuple(op[2]))
        if op[0] == "push":
            return "push(H%d, %r)" % (op[1], self.times[op[2]])
        if op[0] == "trash":
            return "trash(H%d)" % op[1]
        return op[0]

    def fmt_ref(self):
        return {("H%d" % k): v for k, v in sorted(self.ref.items())}


def rebuild(family, nh, history):
    s = State(family, nh)
    for op in history:
        v = s.apply(op)
        if v is not None:
            return s, v
    return s, None


def expand(item):
    """One BFS node: (family, nh, history) -> list of (op, digest, violation, stopped)."""
    family, nh, history = item
    base, v = rebuild(family, nh, history)
    if v is not None:
        raise HarnessError("history %r of family %r no longer replays cleanly: %r" % (history, family, v))
    out = []
    for op in list(base.enabled()):
        s, v0 = rebuild(family, nh, history)
        v = s.apply(op)
        if v is not None:
            out.append((op, None, (v[0], "after %s: %s" % ([s.fmt(o) for o in history], v[1])), True))
            continue
        digest = s.canon()
        stopped = s.stopped
        dv = s.drain()
        if dv is not None:
            out.append((op, digest, (dv[0], "after %s: %s" % ([s.fmt(o) for o in history + [op]], dv[1])), stopped))
        else:
            out.append((op, digest, None, stopped))
    return out


def bfs(family, nh, depth, cores, res, stats):
    seen = set()
    s0 = State(family, nh)
    seen.add(s0.canon())
    frontier = [[]]
    trans = 0
    sample = None
    for d in range(depth):
        items = [(family, nh, h) for h in frontier]
        nxt = []
        for hist, outs in zip(frontier, par.pmap(expand, items, cores if len(items) > 64 else 1)):
            for op, digest, viol, stopped in outs:
                trans += 1
                if viol is not None:
                    res.add(viol[0], {"family": enc(family), "handlers": nh, "history": enc(hist + [op])}, viol[1])
                    continue
                if digest not in seen:
                    seen.add(digest)
                    if not stopped:
                        nxt.append(hist + [op])
                    if sample is None and len(hist) + 1 == min(depth, 5) and op[0] == "get":
                        sample = hist + [op]
        frontier = nxt
        if len(res.violations) > 200:
            break
    stats.append({"family": enc(family), "handlers": nh, "depth": depth, "states": len(seen), "transitions": trans,
                  "frontier_at_bound": len(frontier), "sample": enc(sample)})
    return len(seen), trans


# ----------------------------------------------------------------------------------------------------------------------
# C driver for heap.c under ASan + UBSan
C_DRIVER = r'''
#include "heap.h"
#include <stdio.h>
#include <stdlib.h>
#include <string.h>
#include <math.h>
/* Exhaustive DFS over push/trash/get sequences on heap.c alone, against an array model.
   The driver owns the lazy-deletion protocol of heap_scheduler.py: a per-handler minimal valid counter. */
#define NH 3
#define NT 5
static const double TQ[NT] = {0.0, 0.0, 1.0, 1.0, 2.0};
static const double TR[NT] = {0.25, 0.5, 0.25, 0.5, 0.0};
static unsigned int minimal_valid[NH];
static int handlers[NH];
static int valid_cb(void *sched, void *handler, uint counter) {
    int h = *(int *) handler;
    return minimal_valid[h] > counter;   /* true: entry is deleted lazily */
}
static long executions = 0, gets = 0;
static int fail(const char *what, const int *ops, int n) {
    printf("FAIL %s after", what);
    for (int i = 0; i < n; i++) printf(" %d", ops[i]);
    printf("\n");
    return 1;
}
/* op encoding: 0..NH*NT-1 push(h,t); NH*NT..NH*NT+NH-1 trash(h); NH*NT+NH get */
static int run(const int *ops, int n, int prefill) {
    struct Heap *heap = construct_heap();
    int live[NH]; double lq[NH], lr[NH];
    double lastq = -INFINITY, lastr = -INFINITY;
    for (int h = 0; h < NH; h++) { live[h] = 0; minimal_valid[h] = 0; handlers[h] = h; }
    for (int j = 0; j < prefill; j++) {
        int h = j % NH;
        insert(heap, (double) (j % 2), 0.25 + 0.5 * ((j / 2) % 2), &handlers[h], minimal_valid[h]);
        minimal_valid[h]++;
    }
    int rc = 0;
    for (int i = 0; i < n && !rc; i++) {
        int op = ops[i];
        if (op < NH * NT) {
            int h = op / NT, t = op % NT;
            if (live[h] || TQ[t] < lastq || (TQ[t] == lastq && TR[t] < lastr)) { rc = -1; break; }  /* not enabled */
            insert(heap, TQ[t], TR[t], &handlers[h], minimal_valid[h]);
            live[h] = 1; lq[h] = TQ[t]; lr[h] = TR[t];
        } else if (op < NH * NT + NH) {
            int h = op - NH * NT;
            if (!live[h]) { rc = -1; break; }
            minimal_valid[h]++; live[h] = 0;
        } else {
            struct HeapEntry e = root(heap, NULL, valid_cb);
            gets++;
            int any = 0; double mq = INFINITY, mr = INFINITY;
            for (int h = 0; h < NH; h++) if (live[h]) {
                any = 1;
                if (lq[h] < mq || (lq[h] == mq && lr[h] < mr)) { mq = lq[h]; mr = lr[h]; }
            }
            if (!any) { if (e.event_handler != NULL) rc = fail("root of empty heap not NULL", ops, i + 1); }
            else {
                if (e.event_handler == NULL) rc = fail("root NULL with live events", ops, i + 1);
                else {
                    int h = *(int *) e.event_handler;
                    if (!live[h] || e.time_quotient != mq || e.time_remainder != mr || lq[h] != mq || lr[h] != mr)
                        rc = fail("root not the minimal live entry", ops, i + 1);
                    lastq = mq; lastr = mr;
                }
            }
            /* enumeration of entries must terminate and only contain known handlers */
            for (uint k = 0; ; k++) {
                struct HeapEntry x = entry(heap, k);
                if (x.event_handler == NULL) break;
                int h = *(int *) x.event_handler;
                if (h < 0 || h >= NH) { rc = fail("entry() returned garbage", ops, i + 1); break; }
            }
        }
    }
    /* exercise delete_events on every handler at the end, then drain */
    if (rc == 0) {
        for (int h = 0; h < NH; h++) if (!live[h]) { delete_events(heap, &handlers[h]); }
        for (int k = 0; k < NH + 1; k++) {
            struct HeapEntry e = root(heap, NULL, valid_cb);
            int any = 0; double mq = INFINITY, mr = INFINITY;
            for (int h = 0; h < NH; h++) if (live[h]) { any = 1; if (lq[h] < mq || (lq[h] == mq && lr[h] < mr)) { mq = lq[h]; mr = lr[h]; } }
            if (!any) { if (e.event_handler != NULL) rc = fail("drain: root not NULL", ops, n); break; }
            if (e.event_handler == NULL || e.time_quotient != mq || e.time_remainder != mr) { rc = fail("drain: wrong root", ops, n); break; }
            int h = *(int *) e.event_handler; minimal_valid[h]++; live[h] = 0;
        }
    }
    destroy_heap(heap);
    executions++;
    return rc;
}
static int dfs(int *ops, int n, int depth, int prefill) {
    int rc = run(ops, n, prefill);
    if (rc == -1) return 0;        /* sequence not enabled: prune */
    if (rc == 1) return 1;
    if (n == depth) return 0;
    for (int op = 0; op <= NH * NT + NH; op++) {
        ops[n] = op;
        if (dfs(ops, n + 1, depth, prefill)) return 1;
    }
    return 0;
}
int main(int argc, char **argv) {
    int depth = atoi(argv[1]);
    int ops[32];
    int rc = 0;
    for (int a = 2; a < argc && !rc; a++) rc = dfs(ops, 0, depth, atoi(argv[a]));
    printf("executions %ld gets %ld\n", executions, gets);
    return rc;
}
'''


def c_driver(ctx, res):
    """Compile heap.c from the working tree with the sanitizers and run the exhaustive driver."""
    from .. import bootstrap
    src = os.path.join(bootstrap.REPO, "jellyfysh/scheduler/heap_scheduler")
    if shutil.which("clang") is None:
        res.notes.append("clang not found: sanitizer driver skipped")
        return None
    tmp = tempfile.mkdtemp(prefix="jfv_c06_")
    try:
        with open(os.path.join(tmp, "driver.c"), "w") as f:
            f.write(C_DRIVER)
        exe = os.path.join(tmp, "driver")
        p = subprocess.run(["clang", "-O1", "-g", "-fsanitize=address,undefined", "-fno-sanitize-recover=all",
                            "-fno-omit-frame-pointer", "-I", src, os.path.join(src, "heap.c"),
                            os.path.join(tmp, "driver.c"), "-lm", "-o", exe], capture_output=True, text=True)
        if p.returncode != 0:
            raise HarnessError("sanitizer build of heap.c failed:\n" + p.stderr[-2000:])
        depth = "6" if ctx.thorough else "5"
        prefills = ["0", "61", "62", "63", "66"] if ctx.thorough else ["0", "62", "63"]
        env = dict(os.environ, ASAN_OPTIONS="detect_leaks=1:abort_on_error=0", UBSAN_OPTIONS="print_stacktrace=1")
        p = subprocess.run([exe, depth] + prefills, capture_output=True, text=True, env=env, timeout=3600)
        out = p.stdout + p.stderr
        info = {"depth": int(depth), "prefills": prefills, "exit": p.returncode}
        for line in p.stdout.splitlines():
            if line.startswith("executions"):
                parts = line.split()
                info["executions"], info["gets"] = int(parts[1]), int(parts[3])
        if p.returncode != 0:
            first = next((l for l in out.splitlines() if l.startswith("FAIL") or "ERROR" in l or "runtime error" in l),
                         out[-300:])
            res.add("c-driver", {"c_driver": {"depth": int(depth), "prefills": prefills}},
                    "heap.c under ASan/UBSan: " + first[:400])
        return info
    finally:
        shutil.rmtree(tmp, ignore_errors=True)


def _layout15_case(case):
    from .c14 import check_heap_layout_multi
    sig, fails = check_heap_layout_multi(case)
    return sig, [("layout15-" + k.split("-", 1)[1], m) for k, m in fails]


def layouts15(ctx, res):
    """Deeper heaps than the BFS families reach: every weakly heap-ordered array of 15 entries (4 levels) over three
    time values, every slot as the stale entry of a handler whose counter overflowed, then a push and a complete drain
    (heap and list scheduler, exact order).  Shares the case evaluator with C14."""
    from .c14 import heap_labelings
    three = [(0.0, 0.25), (0.0, 0.5), (1.0, 0.25)]
    cases = [("hlayN", three, lab, tuple(range(15)) if ctx.thorough else tuple(range(7, 15)), ((1.0, 0.5),))
             for lab in heap_labelings(15, 3) if lab[-1] != lab[0]]
    n, sigs, fails = par.run_cases(_layout15_case, cases, ctx.cores, chunk=200, max_fail=20)
    for key, case, msg in fails:
        res.add(key, {"layout15": enc(case)}, msg)
    return {"layouts": n, "drains": n * len(cases[0][3]) * 2}


def plan(ctx):
    t = ctx.thorough
    pl = [(("empty", "small"), 3, 8 if t else 6), (("empty", "large"), 3, 7 if t else 5),
          (("counter", 2 ** 32 - 2, "small"), 3, 7 if t else 6), (("counter", 2 ** 32 - 3, "small"), 2, 9 if t else 7)]
    for k in ((7, 10, 15, 23) if t else (10, 15)):
        pl.append((("prefill_counter", k, 2 ** 32 - 2, "small"), 3, 6 if t else 5))
    # explicit heap layouts: every heap-ordered array of n distinct times, every choice of stale slots of one handler
    # whose counter then overflows (a hole filled from another subtree must be sifted up as well as down)
    for n, ns in (((5, 1), (6, 1), (6, 2), (7, 1), (7, 2), (8, 1)) if t else ((6, 1), (7, 1), (7, 2))):
        pl.append((("layout", n, ns, "small"), n, 4 if t and n <= 6 else 3))
    for k in ((61, 62, 63, 64, 66, 70, 127) if t else (62, 63, 70)):
        pl.append((("prefill", k, "small"), 3, 5 if t else 4))
    if t:
        pl.append((("empty", "small"), 4, 6))
    return pl


def run(ctx):
    from ..core import Result
    res = Result()
    res.level = "model_checking"
    stats = []
    states = trans = 0
    for family, nh, depth in plan(ctx):
        s, t = bfs(family, nh, depth, ctx.cores, res, stats)
        states += s
        trans += t
    cinfo = c_driver(ctx, res)
    l15 = layouts15(ctx, res)
    res.coverage = {
        "states": states, "transitions": trans, "traces_validated_against_impl": trans,
        "evaluations": trans, "distinct_nontrivial": states,
        "rule": "explicit-state BFS over push/trash/get/pickle histories on the real HeapScheduler + ListScheduler "
                "against a dict reference; every transition is executed on freshly rebuilt real objects; states merged "
                "by a canonical digest of heap array, counters, allocation size, list contents, last returned times "
                "and reference; distinct_nontrivial = distinct canonical states; a drain (get+trash until empty) is "
                "evaluated in every state",
        "families": stats, "c_driver": cinfo, "layouts_15_entries": l15,
        "samples": [s["sample"] for s in stats if s["sample"]][:4] or [enc([("push", 0, 0), ("get",)])],
        "exhaustive": True,
        "explanation": "the model is the reference dict; there is no separate model trace to validate: every explored "
                       "transition is an implementation transition (traces_validated_against_impl == transitions)",
    }
    res.assumptions = ["operation sequences respect the mediator protocol (one live event per handler, pushes not "
                       "earlier than the last returned time)",
                       "deletion counters near 2^32 are preset through the scheduler's counter dictionary instead of "
                       "2^32 real trash operations",
                       "realloc failure paths are not driven"]
    return res


def replay(ctx, case):
    if "layout15" in case:
        _, fails = par.guarded(_layout15_case)(tuple(dec(case["layout15"])))
        return sorted(set(k for k, _ in fails)) or None
    if "c_driver" in case:
        r = type("R", (), {"violations": [], "notes": [], "add": lambda self, k, c, m: self.violations.append(k)})()
        c_driver(ctx, r)
        return sorted(r.violations) or None
    family = dec(case["family"])
    history = [tuple(op) for op in dec(case["history"])]
    s, v = rebuild(tuple(family), case["handlers"], history)
    if v is not None:
        return [v[0]]
    dv = s.drain()
    return [dv[0]] if dv else None
