"""C17 -- samples and end of run occur at nominal times on a fully time-sliced state.

Engine A on runs *to completion* (EndOfRun) of shipped configurations and harness templates whose sampling interval,
end time, chain time and first-sample-at-zero flag are taken from a lattice (end = multiple of the interval, interval
> end, chain time = interval (ties), binary-exact and inexact intervals).  After every execution the C17 monitor checks
the k-th sample time against k * interval in exact rationals (one rounding per step), that every moving unit in the
written state carries exactly the sample time as its time stamp, the number of samples, and that the run ends with
the end-of-run handler at Time.from_float(end).  The C07 monitor runs alongside (continuity at the sampling commits,
so the written positions are the positions of the continuous trajectory at the sample time).
"""
import os

from . import _enva
from .. import cfg, envdrive, specs as specmod
from ..envdrive import Spec

MON = ("C17", "C07")
J = "2018_JCP_149_064113/"
T = specmod.TEMPLATE_DIR

# (ini, sampling section, end-of-run section, chain-time sections, supports first_event_time_zero)
BASES = [
    (J + "coulomb_atoms/power_bounded.ini", "FixedIntervalSamplingEventHandler"),
    (J + "coulomb_atoms/power_bounded_dump.ini", "FixedIntervalSamplingEventHandler"),
    (J + "dipoles/atom_factors.ini", "FixedIntervalSamplingEventHandler"),
    (J + "dipoles/dipole_motion.ini", "FixedIntervalSamplingEventHandler"),
    (J + "water/single_molecule.ini", None),
    ("hard_disk_dipoles/single_hard_disk_dipole.ini", None),
    (os.path.join(T, "soft_2d_cuboid.ini"), "FixedIntervalSamplingEventHandler"),
    (os.path.join(T, "soft_cuboid_sparse.ini"), "FixedIntervalSamplingEventHandler"),
]

LATTICE_QUICK = [  # (interval, end, chain factor (chain_time = factor * interval or None = keep), first at zero)
    (0.3, 1.2, None, False), (0.3, 1.0, 1.0, False), (0.7, 0.5, None, False), (0.25, 1.0, 1.0, True),
    (0.3, 1.2, 2.0, True), (0.11, 0.75, None, False), (0.05, 1.5, None, False),
]
LATTICE_THOROUGH = LATTICE_QUICK + [
    (0.1, 1.0, 1.0, False), (0.5, 2.0, 0.5, True), (1.0, 3.0, None, False), (1.25, 2.5, 1.0, True),
    (0.3, 0.3, None, False), (0.0625, 0.5, 2.0, False), (0.2, 1.05, None, True), (0.01, 1.0, None, False),
]


def sections(ini):
    c = cfg.load(ini)
    samp = [s for s in c.sections() if c.has_option(s, "sampling_interval")]
    end = [s for s in c.sections() if c.has_option(s, "end_of_run_time")]
    chain = [s for s in c.sections() if c.has_option(s, "chain_time")]
    lengths = [(s, float(c.get(s, "chain_length"))) for s in c.sections() if c.has_option(s, "chain_length")]
    ct = float(c.get(chain[0], "chain_time")) if chain else None
    return samp, end, chain, ct, lengths


def make_specs(ctx):
    lattice = LATTICE_THOROUGH if ctx.thorough else LATTICE_QUICK
    out = []
    for ini, _ in BASES:
        samp, end, chain, ct, lengths = sections(ini)
        if len(samp) != 1 or len(end) != 1:
            continue
        # time unit of the configuration: its own chain time (event spacing scales with it)
        unit = ct if ct else 1.0
        for (d, e, cf, zero) in lattice:
            delta, endt = d * unit, e * unit
            ov = {(samp[0], "sampling_interval"): repr(delta), (end[0], "end_of_run_time"): repr(endt),
                  (samp[0], "first_event_time_zero"): str(zero)}
            for sec in [x for x in cfg.load(ini).sections() if cfg.load(ini).has_option(x, "dumping_interval")]:
                ov[(sec, "dumping_interval")] = repr(0.37 * unit)
            if cf is not None and chain:
                new_ct = cf * delta
                ov[(chain[0], "chain_time")] = repr(new_ct)
                for sec, val in lengths:
                    ov[(sec, "chain_length")] = repr(val / ct * new_ct)
            name = "%s[d=%g,e=%g,c=%s,z=%d]" % (specmod.short(ini) if not os.path.isabs(ini)
                                                else "tpl/" + os.path.basename(ini)[:-4], d, e, cf, zero)
            out.append(Spec(name, ini, ov, horizon=1500, tags=("c17",),
                            info={"c17": {"interval": delta, "zero": zero, "end": endt}}))
            if ini.endswith("coulomb_atoms/power_bounded.ini") or ini.endswith("dipoles/dipole_motion.ini"):
                # the same run "late in a very long run": all lazy-deletion counters of the heap scheduler a few trashes
                # below 2^32, so that the overflow clean-up of the C heap happens while sampling / end-of-run events wait
                out.append(Spec(name + "@2^32", ini, ov, horizon=1500, tags=("c17",),
                                info={"c17": {"interval": delta, "zero": zero, "end": endt},
                                      "preset_counters": 2 ** 32 - 3}))
    return out


def run(ctx):
    from ..core import Result
    res = Result()
    sp = make_specs(ctx)
    baselines = [0, 1, 2, 3] if ctx.thorough else [0, 1 + ctx.seed % 3]
    bad, st = envdrive.explore(sp, MON, 1, baselines, ctx.cores, max_per_baseline=120 if not ctx.thorough else 400,
                           resume_legs=(2, 5, 9, 14) if not ctx.thorough else (1, 2, 3, 5, 7, 9, 14, 20, 30))
    byname = {s.name: s for s in sp}
    seen = set()
    for name, err in st["build_failures"]:
        res.add("build-failure", {"spec": name}, "configuration %s could not be built: %s" % (name, err[:600]))
    for r in bad:
        for key, msg in r["violations"]:
            if key == "exception-tie" or key.startswith("exception:"):
                rel = key.split(":", 1)[-1]
                import fnmatch
                if key == "exception-tie" or not any(fnmatch.fnmatch("jellyfysh/" + rel, p)
                                                     for p in _enva.anchor_patterns("C17")):
                    continue
                key = "exception"
            elif not key.startswith(("C17:", "C07:jump", "C07:stamp")):
                continue
            if (r["spec"], key) in seen:
                continue
            seen.add((r["spec"], key))
            case = {"spec": byname[r["spec"]].to_json(), "baseline": r["baseline"],
                    "deviations": [[list(_enva._jl(k)), a] for k, a in r["deviations"]],
                    "horizon": byname[r["spec"]].horizon, "monitors": list(MON), "key": key}
            res.add(key, case, "[%s, baseline %d, deviations %r] %s" % (r["spec"], r["baseline"], r["deviations"], msg))
    cov = _enva.coverage(st, MON, "Runs go to EndOfRun (horizon 1500 legs as a safety cap); per execution: sample "
                         "times vs k*interval in exact rationals, time stamps of all moving units in the written "
                         "state == sample time, sample count, end-of-run time; deviations per baseline capped at "
                         "120 (quick) / 400 (thorough) when a run has more draws.")
    cov["samples_checked"] = st.get("c17_samples", 0)
    cov["runs_not_ended_within_cap"] = st.get("not_ended", 0)
    res.coverage = cov
    if st.get("not_ended", 0):
        res.notes.append("%d executions did not reach EndOfRun within 1500 legs (their samples are still checked)"
                         % st["not_ended"])
    res.assumptions = list(_enva.ASSUMPTIONS) + ["a sampling time that coincides with the end time within rounding "
                                                 "may or may not be written (either count is accepted)"]
    return res


def replay(ctx, case):
    return _enva.replay(ctx, case, MON)
