"""C16 -- the cell grid partitions the box; neighbour / offset relations form a torus.

Engine C on the real CuboidCells / CuboidPeriodicCells:
 (1) per direction, for a lattice of (L, n): every float within +-4 ulp of every cell boundary k L/n and of 0 and L that
     lies in [0, L), plus a regular grid, is mapped to exactly one cell whose recorded extent contains it; the extents
     abut (next float after max_i is min_{i+1}), start at 0 and end at the largest float below L; the mapping is
     monotone; boundaries lie within 4 ulp(L) of k L/n (exact rationals).
 (2) multi-dimensional grids with unequal counts: flat-index arithmetic for every cell.
 (3) every ordered pair of cells: neighbor_cell, nearby_cells, relative_cell, translate == index arithmetic mod n.
"""
import itertools
import math
from fractions import Fraction

from .. import par
from ..fl import F, around, dec, enc, uniq

INF = math.inf


def grids_1d(ctx):
    Ls = [1.0, 0.1, 0.7, 2.0, 3.0, 7.3, 10.0, 12.836, 100.0]
    ns = list(range(1, 17)) + [24, 32]
    if ctx.thorough:
        Ls += [0.3, 1.5, 2.5, 5.0, 6.0, 9.9, 31.4159, 1e-3, 1e3, 12.0, 18.0, 0.9999999999999999, 4.2]
        ns = list(range(1, 41)) + [48, 50, 64, 100, 128]
    out = [(L, n) for L in Ls for n in ns]
    # shipped pairs (system length, cells per side) of the .ini files
    out += [(1.0, 3), (1.0, 5), (1.0, 7), (12.836, 6), (12.836, 7), (12.836, 8), (6.0, 4)]
    return uniq(out)


def grids_nd(ctx):
    gs = [((1.0, 1.0), (3, 3), 1), ((1.0, 1.0), (4, 3), 1), ((2.0, 3.0), (5, 5), 1), ((1.0, 1.0, 1.0), (3, 3, 3), 1),
          ((1.0, 1.0, 1.0), (3, 5, 7), 1), ((1.0, 2.0, 0.5), (4, 3, 2), 1), ((1.0, 1.0), (5, 4), 2),
          ((1.0, 1.0), (3, 4), 0), ((12.836,) * 3, (6, 6, 6), 1), ((1.0, 1.0), (2, 2), 1), ((1.0,), (5,), 2),
          ((1.0, 1.0), (1, 3), 1), ((1.0, 1.0, 1.0), (7, 7, 7), 2),
          # cubic cells in a non-cubic box: equal side lengths, unequal counts, side length not a dyadic fraction
          ((1.0, 2.0), (3, 6), 1), ((2.0, 1.0), (6, 3), 1), ((1.0, 2.0, 3.0), (3, 6, 9), 1),
          # neighbour layers that wrap round the box more than once; a first side much longer than the others
          ((1.0, 1.0), (1, 3), 2), ((1.0, 1.0), (2, 5), 3), ((2.5, 1.0), (5, 4), 1), ((3.0, 1.0, 1.5), (4, 3, 2), 1)]
    if ctx.thorough:
        gs += [((1.0, 1.0, 1.0), (5, 6, 7), 2), ((3.0, 1.0, 2.0), (7, 2, 5), 1), ((1.0, 1.0), (9, 8), 3),
               ((1.0, 1.0, 1.0), (4, 4, 4), 1), ((1.0, 1.0, 1.0), (2, 3, 4), 0), ((10.0, 10.0), (16, 12), 2),
               ((1.0, 1.0, 1.0), (9, 9, 9), 1)]
    return gs


def _mk(Ls, counts, layers, periodic=True, given=None):
    import jellyfysh.setting as setting
    from jellyfysh.setting import hypercuboid_setting
    from jellyfysh.activator.internal_state.cell_occupancy.cells.cuboid_periodic_cells import CuboidPeriodicCells
    from jellyfysh.activator.internal_state.cell_occupancy.cells.cuboid_cells import CuboidCells
    from ..env import init_setting
    init_setting(Ls)
    cls = CuboidPeriodicCells if periodic else CuboidCells
    # given < dimension: the documented shorthand "missing directions use the first entry"
    return cls(cells_per_side=list(counts)[:given] if given else list(counts), neighbor_layers=layers)


def check_1d(case):
    """case = ("grid1", L, n)"""
    import jellyfysh.setting as setting
    _, L, n = case
    fails = []

    def bad(key, msg):
        fails.append((key, "L=%r cells=%d: %s" % (L, n, msg)))
    try:
        cells = _mk((L,), (n,), 1)
    except Exception as e:
        bad("build-exception", "constructing the cell system raised %r" % (e,))
        setting.reset()
        return None, fails
    cl = list(cells.yield_cells())
    if len(cl) != n or [c.identifier for c in cl] != [(i,) for i in range(n)]:
        bad("cell-list", "yield_cells gives identifiers %r" % ([c.identifier for c in cl][:40],))
        setting.reset()
        return None, fails
    # extents: abut, start at 0, end at the largest float below L, near the exact boundaries
    if cl[0].cell_min[0] != 0.0:
        bad("extent-start", "first cell starts at %r" % (cl[0].cell_min[0],))
    top = math.nextafter(L, -INF)
    # The statement demands that [0, L) is covered; a recorded maximum of L itself (or an ulp more, where the float
    # division rounds down at the top) covers it as well, so only a maximum *below* the largest float < L is a gap.
    if cl[-1].cell_max[0] < top:
        bad("extent-end", "last cell ends at %r, the largest float below L is %r" % (cl[-1].cell_max[0], top))
    tol = 4 * F(math.ulp(L))
    for i, c in enumerate(cl):
        lo, hi = c.cell_min[0], c.cell_max[0]
        if not lo <= hi:
            bad("extent-empty", "cell %d has min %r > max %r" % (i, lo, hi))
        if i + 1 < n and math.nextafter(hi, INF) != cl[i + 1].cell_min[0]:
            bad("extent-abut", "cell %d ends at %r but cell %d starts at %r (gap or overlap)"
                % (i, hi, i + 1, cl[i + 1].cell_min[0]))
        if abs(F(lo) - F(L) * i / n) > tol or abs(F(hi) - F(L) * (i + 1) / n) > tol:
            bad("extent-place", "cell %d = [%r, %r] is not within 4 ulp(L) of [%r, %r]"
                % (i, lo, hi, L * i / n, L * (i + 1) / n))
    # positions
    xs = []
    for k in range(n + 1):
        xs += around(L * k / n, 4)
        xs += around(float(F(L) * k / n), 1)
    for c in cl:
        xs += [c.cell_min[0], c.cell_max[0]]
    m = max(2, 64 // n)
    xs += [L * (j + 0.5) / (n * m) for j in range(n * m)]
    xs = sorted(x for x in uniq(xs) if 0.0 <= x < L)
    prev = -1
    crossed = 0
    for x in xs:
        try:
            c = cells.position_to_cell([x])
        except Exception as e:
            bad("position-exception", "position_to_cell([%r]) raised %r" % (x, e))
            continue
        holders = [d for d in cl if d.cell_min[0] <= x <= d.cell_max[0]]
        if len(holders) != 1:
            bad("position-partition", "position %r lies in the recorded extents of %d cells" % (x, len(holders)))
        if not (c.cell_min[0] <= x <= c.cell_max[0]):
            bad("position-extent", "position_to_cell([%r]) = cell %r with extent [%r, %r] which does not contain it"
                % (x, c.identifier, c.cell_min[0], c.cell_max[0]))
        k = c.identifier[0]
        if k < prev:
            bad("position-monotone", "position %r maps to cell %d after a smaller position mapped to %d" % (x, k, prev))
        if k != prev:
            crossed += 1
        prev = max(prev, k)
    setting.reset()
    sig = (n == 1, crossed == n, L < 1, float(F(L) / n) == L / n)
    return sig, fails


def _ident_index(ident, counts):
    idx, mul = 0, 1
    for i, c in zip(ident, counts):
        idx += i * mul
        mul *= c
    return idx


def check_nd(case):
    """case = ("gridn", Ls, counts, layers, periodic)"""
    import jellyfysh.setting as setting
    _, Ls, counts, layers, periodic = case[:5]
    given = case[5] if len(case) > 5 else None
    dim = len(Ls)
    fails = []

    def bad(key, msg):
        if len(fails) < 30:
            fails.append((key, "L=%r cells=%r%s layers=%d periodic=%r: %s"
                          % (Ls, counts, " (given as %r)" % (list(counts)[:given],) if given else "", layers, periodic,
                             msg)))
    try:
        cells = _mk(Ls, counts, layers, periodic, given)
    except Exception as e:
        bad("build-exception", "constructing the cell system raised %r" % (e,))
        setting.reset()
        return None, fails
    cl = list(cells.yield_cells())
    idents = list(itertools.product(*[range(c) for c in counts]))
    by_ident = {c.identifier: c for c in cl}
    if sorted(by_ident) != sorted(idents) or len(cl) != len(idents):
        bad("cell-list", "identifiers are not the full product of ranges")
        setting.reset()
        return None, fails
    # extents per direction: every row of cells along direction d must tile [0, L_d) exactly as in one dimension
    for d in range(dim):
        row = {}
        for c in cl:
            row.setdefault(c.identifier[d], set()).add((c.cell_min[d], c.cell_max[d]))
        prev_hi = None
        for i in range(counts[d]):
            if len(row[i]) != 1:
                bad("extent-inconsistent", "cells with index %d in direction %d record different extents %r"
                    % (i, d, sorted(row[i])))
                break
            (lo, hi), = row[i]
            if i == 0 and lo != 0.0:
                bad("extent-start", "direction %d: first cell starts at %r" % (d, lo))
            if prev_hi is not None and math.nextafter(prev_hi, INF) != lo:
                bad("extent-abut", "direction %d: cell %d ends at %r but cell %d starts at %r (gap or overlap)"
                    % (d, i - 1, prev_hi, i, lo))
            prev_hi = hi
        if prev_hi is not None and prev_hi < math.nextafter(Ls[d], -INF):
            bad("extent-end", "direction %d: last cell ends at %r, the largest float below L is %r"
                % (d, prev_hi, math.nextafter(Ls[d], -INF)))
    for c in cl:
        if cl[_ident_index(c.identifier, counts)] is not c:
            bad("flat-index", "cell %r is not stored at its flat index" % (c.identifier,))
        # position -> cell at centre, at recorded corners
        for pos in ([(c.cell_min[d] + c.cell_max[d]) / 2 for d in range(dim)], list(c.cell_min), list(c.cell_max)):
            try:
                got = cells.position_to_cell(pos)
            except Exception as e:
                bad("position-exception", "position_to_cell(%r) raised %r" % (pos, e))
                continue
            if got is not c:
                bad("position-cell", "position_to_cell(%r) = %r, expected %r" % (pos, got.identifier, c.identifier))
        for d in range(dim):
            for positive in (True, False):
                want = list(c.identifier)
                want[d] += 1 if positive else -1
                if periodic:
                    want[d] %= counts[d]
                    want_cell = by_ident[tuple(want)]
                else:
                    want_cell = by_ident.get(tuple(want)) if 0 <= want[d] < counts[d] else None
                got = cells.neighbor_cell(c, d, positive)
                if got is not want_cell:
                    bad("neighbor", "neighbor_cell(%r, %d, %r) = %r" % (c.identifier, d, positive,
                                                                         got and got.identifier))
        near = cells.nearby_cells(c)
        want_near = set()
        for off in itertools.product(*[range(-layers, layers + 1)] * dim):
            w = [c.identifier[d] + off[d] for d in range(dim)]
            if periodic:
                w = [w[d] % counts[d] for d in range(dim)]
            elif not all(0 <= w[d] < counts[d] for d in range(dim)):
                continue
            want_near.add(by_ident[tuple(w)])
        if set(near) != want_near:
            bad("nearby", "nearby_cells(%r) = %r" % (c.identifier, sorted(x.identifier for x in near)))
        if c not in near:
            bad("nearby-self", "nearby_cells(%r) does not contain the cell" % (c.identifier,))
    for c in cl:
        for o in cells.nearby_cells(c):
            if c not in cells.nearby_cells(o):
                bad("nearby-symmetric", "%r is nearby %r but not vice versa" % (o.identifier, c.identifier))
    pairs = 0
    if periodic:
        if cells.zero_cell is not by_ident[(0,) * dim]:
            bad("zero-cell", "zero_cell is %r" % (cells.zero_cell.identifier,))
        for c in cl:
            for ref in cl:
                pairs += 1
                want = tuple((c.identifier[d] - ref.identifier[d]) % counts[d] for d in range(dim))
                try:
                    rel = cells.relative_cell(c, ref)
                except Exception as e:
                    bad("relative-exception", "relative_cell(%r, %r) raised %r" % (c.identifier, ref.identifier, e))
                    continue
                if rel.identifier != want:
                    bad("relative", "relative_cell(%r, %r) = %r, index arithmetic gives %r"
                        % (c.identifier, ref.identifier, rel.identifier, want))
                want_t = tuple((c.identifier[d] + ref.identifier[d]) % counts[d] for d in range(dim))
                try:
                    tr = cells.translate(c, ref)
                except Exception as e:
                    bad("translate-exception", "translate(%r, %r) raised %r" % (c.identifier, ref.identifier, e))
                    continue
                if tr.identifier != want_t:
                    bad("translate", "translate(%r, %r) = %r, index arithmetic gives %r"
                        % (c.identifier, ref.identifier, tr.identifier, want_t))
                try:
                    if cells.translate(ref, rel) is not c:
                        bad("translate-inverts-relative", "translate(%r, relative_cell(%r, %r)) != %r"
                            % (ref.identifier, c.identifier, ref.identifier, c.identifier))
                except Exception as e:
                    bad("translate-exception", "translate(%r, %r) raised %r" % (ref.identifier, rel.identifier, e))
    setting.reset()
    return ("nd", dim, len(set(counts)) > 1, layers, periodic, any(2 * layers + 1 > c for c in counts)), fails


DISPATCH = {"grid1": check_1d, "gridn": check_nd}


def check_case(case):
    return DISPATCH[case[0]](case)


def cases(ctx):
    for L, n in grids_1d(ctx):
        yield ("grid1", L, n)
    for Ls, counts, layers in grids_nd(ctx):
        yield ("gridn", Ls, counts, layers, True)
        yield ("gridn", Ls, counts, layers, False)
    # shorthand cells_per_side (fewer entries than dimensions; the rest repeat the first) in cubic and non-cubic boxes
    for Ls, counts, given in (((1.0, 1.0, 1.0), (4, 4, 4), 1), ((1.0, 2.0), (3, 3), 1), ((2.0, 1.0, 3.0), (5, 5, 5), 1),
                              ((1.0, 0.5, 2.0), (4, 3, 4), 2), ((3.0, 2.0), (6, 6), 1)):
        yield ("gridn", Ls, counts, 1, True, given)
        yield ("gridn", Ls, counts, 1, False, given)


def run(ctx):
    from ..core import Result
    res = Result()
    all_cases = list(cases(ctx))
    n, sigs, fails = par.run_cases(check_case, all_cases, ctx.cores, chunk=1)
    for key, case, msg in fails:
        res.add(key, {"case": enc(case)}, msg)
    res.coverage = {
        "evaluations": n, "distinct_nontrivial": len(sigs),
        "grids_1d": len(grids_1d(ctx)), "grids_nd": 2 * len(grids_nd(ctx)),
        "rule": "one evaluation = one complete cell system: (a) 1-D (L, n) lattice (n = 1..16,24,32 | 1..40,..128; "
                "9 | 22 box lengths; shipped pairs), all floats within 4 ulp of every cell/box boundary and a regular "
                "grid -> unique containing cell, abutting extents covering [0, L), monotone map; (b) 2-D/3-D grids "
                "with unequal counts, 0-3 neighbour layers, periodic and non-periodic: every cell (flat index, "
                "neighbours, nearby set) and every ordered pair of cells (relative_cell, translate, inverse). Oracle: "
                "index arithmetic modulo n and exact rational boundaries. distinct_nontrivial = distinct grid regimes",
        "samples": [enc(("grid1", 1.0, 7)), enc(("gridn", (1.0, 1.0, 1.0), (3, 5, 7), 1, True))],
        "exhaustive": True,
    }
    res.assumptions = ["IEEE-754 binary64", "cell boundaries may sit within 4 ulp(L) of k L/n (the code defines them by "
                       "float division); everything else is exact"]
    return res


def replay(ctx, case):
    c = dec(case["case"])
    _, fails = par.guarded(check_case)(c)
    return sorted(set(k for k, _ in fails)) or None
