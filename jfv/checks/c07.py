"""C07 -- particles move continuously at the recorded velocity; events only hand velocity over (engine A)."""
from . import _enva

MON = ("C07",)


def run(ctx):
    from ..core import Result
    res = Result()
    st = _enva.run_monitors(ctx, res, MON)
    res.coverage = _enva.coverage(st, MON, "C07 monitor at every top-level insert: event times never decrease; each "
                                  "unit continues from its previous position with its previous velocity (mod box); "
                                  "units at rest do not move; one chain with the initial speed; positions in [0, L); "
                                  "identifiers and charges fixed.")
    res.assumptions = _enva.ASSUMPTIONS + ["continuity tolerance 1e-9 L (positions are re-derived from float time "
                                           "differences)"]
    return res


def replay(ctx, case):
    return _enva.replay(ctx, case, MON)
