"""C07 -- particles move continuously at the recorded velocity; events only hand velocity over (engine A)."""
from . import _enva

MON = ("C07",)


def run(ctx):
    from ..core import Result
    res = Result()
    st = _enva.run_monitors(ctx, res, MON)
    # long baseline runs (no deviations, all six baselines) of a cell-bounded water configuration "late in a very long
    # run": the lazy-deletion counters of the heap scheduler overflow at different moments of the first chains
    from .. import specs as specmod
    J = "2018_JCP_149_064113/"
    late = [specmod.scaled(J + "water/coulomb_power_bounded_lj_cell_bounded.ini", n, horizon=150,
                           name="water/coulomb_power_bounded_lj_cell_bounded*%d@2^32-%d" % (n, c),
                           info={"preset_counters": 2 ** 32 - c})
            for n in (2, 3) for c in ((2, 3, 4, 5, 6, 8, 12) if ctx.thorough else (3, 6, 8, 12))]
    st2 = _enva.run_monitors(ctx, res, MON, specs_override=late, quick_baselines=[0, 1, 2, 3, 4, 5], deviations=0,
                             derive=False, resume_legs=())
    st["executions"] += st2["executions"]
    st["outcomes"] |= st2["outcomes"]
    st["per_spec"].update(st2["per_spec"])
    res.coverage = _enva.coverage(st, MON, "C07 monitor at every top-level insert: event times never decrease; each "
                                  "unit continues from its previous position with its previous velocity (mod box); "
                                  "units at rest do not move; one chain with the initial speed; positions in [0, L); "
                                  "identifiers and charges fixed.")
    res.assumptions = _enva.ASSUMPTIONS + ["continuity tolerance 1e-9 L (positions are re-derived from float time "
                                           "differences)"]
    return res


def replay(ctx, case):
    return _enva.replay(ctx, case, MON)
