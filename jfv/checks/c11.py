"""C11 (engine A) -- see jfv/envx.py for the monitor."""
from . import _enva

MON = ("C11",)
def FILTER(spec):
    from .. import specs
    return specs.has_cells(spec)
RULE = ("C11 monitor at every leg: each relevant non-active unit recorded once, in the occupant/surplus list of the "
        "cell containing its position; cap respected; active unit in neither list, moving, and recorded with the "
        "cell containing its continuous position; at every commit the active unit is inside its recorded cell "
        "unless a cell-boundary event of that cell system commits.")


def run(ctx):
    from ..core import Result
    res = Result()
    st = _enva.run_monitors(ctx, res, MON, FILTER, quiet=True)
    res.coverage = _enva.coverage(st, MON, RULE)
    res.assumptions = list(_enva.ASSUMPTIONS)
    return res


def replay(ctx, case):
    return _enva.replay(ctx, case, MON)
