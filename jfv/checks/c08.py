"""C08 (engine A) -- see jfv/envx.py for the monitor."""
from . import _enva

MON = ("C08",)
FILTER = None
RULE = ("C08 monitor: the global values (velocity, trajectory) of every unit of the in-state of every pending "
        "interaction / cell-veto candidate are compared with those stored when the candidate was created, at every "
        "leg (eager form) and at its commit.")


def run(ctx):
    from ..core import Result
    res = Result()
    st = _enva.run_monitors(ctx, res, MON, FILTER)
    res.coverage = _enva.coverage(st, MON, RULE)
    res.assumptions = list(_enva.ASSUMPTIONS)
    return res


def replay(ctx, case):
    return _enva.replay(ctx, case, MON)
