"""C19 -- a dumped run resumes to exactly the run that was never interrupted.

Engine E: for each (configuration, scheduler) the reference run is executed in a fresh interpreter with the real
DumpingOutputHandler and the real Mersenne Twister; every dump written is kept; then for *every* dump a fresh
interpreter restores it exactly as jellyfysh/resume.py does and continues to the end.  The resumed event log
(who is next, committed out-state, sampled state; floats bit for bit) must equal the tail of the reference log after
that dump.  In addition the reference log with the dumping events deleted must equal the log of the same
configuration without the dumping tagger.
"""
import concurrent.futures
import json
import os
import shutil
import subprocess
import sys
import tempfile

from .. import bootstrap, specs as specmod
from ..core import HarnessError, VERIF
from ..envdrive import Spec

J = "2018_JCP_149_064113/"


def jobs(ctx):
    """(name, spec, dumping interval, seed)"""
    t = ctx.thorough
    out = []

    def add(name, ini, end, dump, samp=None, chain=None, start=None, n=None, sched=("heap_scheduler", "list_scheduler"),
            seeds=(11,), extra=None):
        for sc in sched:
            for seed in seeds:
                base = specmod.scaled(ini, n, start=start) if n else Spec(name, ini)
                ov = dict(base.overrides)
                ov[("SingleProcessMediator", "scheduler")] = sc
                ov[("FinalTimeEndOfRunEventHandler", "end_of_run_time")] = repr(end)
                from .. import cfg
                c = cfg.load(ini)
                for sec in c.sections():
                    if samp is not None and c.has_option(sec, "sampling_interval"):
                        ov[(sec, "sampling_interval")] = repr(samp)
                    if chain is not None and c.has_option(sec, "chain_time"):
                        old = float(c.get(sec, "chain_time"))
                        ov[(sec, "chain_time")] = repr(chain)
                        for s2 in c.sections():
                            if c.has_option(s2, "chain_length"):
                                ov[(s2, "chain_length")] = repr(float(c.get(s2, "chain_length")) / old * chain)
                ov.update(extra or {})
                out.append(("%s/%s@%d" % (name, sc.split("_")[0], seed),
                            Spec(name, ini, ov, start if n else None, seed), dump, seed))
    add("coulomb/power_bounded_dump", J + "coulomb_atoms/power_bounded_dump.ini", 20.0 if not t else 60.0, 1.63,
        seeds=(11,) if not t else (11, 12, 13))
    # commensurate intervals: exact ties between sampling, end of chain, dumping and end of run
    add("coulomb/power_bounded_dump+ties", J + "coulomb_atoms/power_bounded_dump.ini", 12.0 if not t else 24.0, 1.0,
        samp=0.5, chain=0.75)
    add("coulomb/cell_veto", J + "coulomb_atoms/cell_veto.ini", 0.12 if not t else 0.4, 0.0131, samp=0.0043,
        chain=0.0057)
    add("coulomb/cell_veto+crowd4", J + "coulomb_atoms/cell_veto.ini", 0.06 if not t else 0.2, 0.0093, samp=0.0043,
        chain=0.0057, start=specmod.crowded_atoms(), n=4, sched=("heap_scheduler",) if not t else
        ("heap_scheduler", "list_scheduler"))
    add("dipoles/cell_bounded", J + "dipoles/cell_bounded.ini", 0.4 if not t else 1.2, 0.047, samp=0.011, chain=0.013)
    add("dipoles/dipole_motion", J + "dipoles/dipole_motion.ini", 5.0 if not t else 16.0, 0.71, samp=0.2, chain=0.27,
        sched=("heap_scheduler",) if not t else ("heap_scheduler", "list_scheduler"))
    add("dipoles/inside_first*3", J + "dipoles/dipole_factors_inside_first.ini", 1.5 if not t else 5.0, 0.217,
        samp=0.07, chain=0.11, n=3, sched=("list_scheduler",) if not t else ("heap_scheduler", "list_scheduler"))
    add("water/cell_veto", J + "water/coulomb_cell_veto_lj_cell_veto.ini", 0.05 if not t else 0.16, 0.0071,
        samp=0.002, chain=0.0027, sched=("heap_scheduler",))
    if t:
        add("dipoles/cell_veto+crowd4", J + "dipoles/cell_veto.ini", 0.04, 0.0053, samp=0.0043, chain=0.0057,
            start=specmod.crowded_dipoles(), n=4, sched=("heap_scheduler",))
        add("hard_di/single", "hard_disk_dipoles/single_hard_disk_dipole.ini", 4.0, 0.37, samp=0.3, chain=0.41)
    return out


def _run_worker(mode, job, timeout=1800):
    jobfile = job["out"] + ".job"
    with open(jobfile, "w") as f:
        json.dump(job, f)
    env = dict(os.environ, JFV_BUILD_DIR=bootstrap.build_dir or "", PYTHONHASHSEED="0", PYTHONWARNINGS="ignore",
               PYTHONDONTWRITEBYTECODE="1")
    p = subprocess.run([bootstrap.PYTHON, os.path.join(VERIF, "jfv", "crashx.py"), mode, jobfile],
                       capture_output=True, text=True, env=env, timeout=timeout, cwd=VERIF)
    if not os.path.exists(job["out"]):
        raise HarnessError("crashx worker (%s) produced no result:\n%s" % (mode, (p.stdout + p.stderr)[-2000:]))
    with open(job["out"]) as f:
        return json.load(f)


def first_diff(a, b):
    for i, (x, y) in enumerate(zip(a, b)):
        if x != y:
            return i, x, y
    if len(a) != len(b):
        i = min(len(a), len(b))
        return i, a[i] if i < len(a) else None, b[i] if i < len(b) else None
    return None


def brief(entry):
    if entry is None:
        return "nothing (log ends)"
    s = json.dumps(entry)
    return s if len(s) < 260 else s[:260] + "..."


def run_job(name, spec, dump, seed, res, stats, pool, only_dump=None):
    work = tempfile.mkdtemp(prefix="jfv_c19_")
    try:
        ref = _run_worker("ref", {"spec": spec.to_json(), "dumping_interval": dump, "seed": seed, "workdir": work,
                                  "out": os.path.join(work, "ref.json")})
        case0 = {"name": name, "spec": spec.to_json(), "dumping_interval": dump, "seed": seed}
        if ref["error"]:
            res.add("reference-run-exception", dict(case0, dump=None), "%s: the run with dumping raised %s"
                    % (name, ref["error"][:700]))
            return
        marks = ref["marks"]
        log = ref["log"]
        stats["dumps"] += len(marks)
        stats["events"] += len(log)
        stats["per_job"][name] = {"events": len(log), "dumps": len(marks), "ended": bool(ref.get("ended"))}
        # resumes
        ks = list(range(len(marks))) if only_dump is None else [only_dump]
        futs = {}
        for k in ks:
            job = {"dump": os.path.join(work, "dump_%d.dat" % k), "out": os.path.join(work, "res_%d.json" % k)}
            futs[pool.submit(_run_worker, "resume", job)] = k
        for fut in concurrent.futures.as_completed(futs):
            k = futs[fut]
            r = fut.result()
            stats["resumes"] += 1
            tail = log[marks[k]:]
            case = dict(case0, dump=k)
            if r["error"]:
                res.add("resume-exception", case, "%s: resuming dump %d of %d raised %s"
                        % (name, k, len(marks), r["error"][:700]))
                continue
            d = first_diff(r["log"], tail)
            stats["compared_events"] += len(tail)
            if d is not None:
                i, mine, theirs = d
                res.add("resume-differs", case, "%s: resuming dump %d of %d (taken after event %d of %d) diverges at "
                        "event %d after the dump: resumed run has %s, the uninterrupted run %s"
                        % (name, k, len(marks), marks[k], len(log), i, brief(mine), brief(theirs)))
        # with exact ties the order of simultaneous events is unspecified and legitimately depends on what else is in
        # the scheduler, so the with/without-dumping comparison is only made for tie-free configurations
        if (only_dump is None or only_dump == -1) and "+ties" not in name:
            plain = _run_worker("plain", {"spec": spec.to_json(), "seed": seed, "workdir": work,
                                          "out": os.path.join(work, "plain.json")})
            if plain["error"]:
                res.add("plain-run-exception", dict(case0, dump=-1), "%s: the run without dumping raised %s"
                        % (name, plain["error"][:700]))
            else:
                stripped = [e for e in log if not (e[0] == "commit" and "Dumping" in (e[1] or ""))]
                d = first_diff(stripped, plain["log"])
                stats["compared_events"] += len(stripped)
                if d is not None:
                    i, mine, theirs = d
                    res.add("dumping-changes-run", dict(case0, dump=-1), "%s: the run that writes dumps differs from "
                            "the run without dumping at event %d: %s vs %s" % (name, i, brief(mine), brief(theirs)))
    finally:
        shutil.rmtree(work, ignore_errors=True)


def run(ctx):
    from ..core import Result
    res = Result()
    res.level = "fault_enumeration"
    stats = {"dumps": 0, "events": 0, "resumes": 0, "compared_events": 0, "per_job": {}}
    all_jobs = jobs(ctx)
    with concurrent.futures.ThreadPoolExecutor(max_workers=ctx.cores) as pool:
        with concurrent.futures.ThreadPoolExecutor(max_workers=max(2, ctx.cores // 4)) as outer:
            futs = [outer.submit(run_job, name, spec, dump, seed, res, stats, pool) for name, spec, dump, seed in
                    all_jobs]
            for f in futs:
                f.result()
    res.coverage = {
        "evaluations": stats["resumes"] + len(all_jobs), "distinct_nontrivial": stats["dumps"],
        "rule": "every dump written by each reference run (real DumpingOutputHandler, real Mersenne Twister, dumping "
                "interval incommensurate with the other intervals; one variant with commensurate intervals = exact "
                "ties) is resumed in a fresh interpreter exactly as resume.py does and compared event by event, bit "
                "for bit, with the uninterrupted run; plus run-with-dumps == run-without-dumps. distinct_nontrivial "
                "= number of distinct dump points resumed",
        "samples": [{"job": n, **v} for n, v in list(stats["per_job"].items())[:4]],
        "jobs": stats["per_job"], "events_compared": stats["compared_events"], "exhaustive": True,
    }
    res.assumptions = ["the enumeration is over dump points of a few seeded runs, not over seeds",
                       "resume is performed with the same interpreter and platform as the dump"]
    return res


def replay(ctx, case):
    from ..core import Result
    r = Result()
    stats = {"dumps": 0, "events": 0, "resumes": 0, "compared_events": 0, "per_job": {}}
    spec = Spec.from_json(case["spec"])
    with concurrent.futures.ThreadPoolExecutor(max_workers=2) as pool:
        run_job(case["name"], spec, case["dumping_interval"], case["seed"], r, stats, pool,
                only_dump=case.get("dump") if case.get("dump") is not None else -2)
    return sorted(set(v.key for v in r.violations)) or None
