"""C19 -- a dumped run resumes to exactly the run that was never interrupted.

Engine E: for each (configuration, scheduler) the reference run is executed in a fresh interpreter with the real
DumpingOutputHandler and the real Mersenne Twister; every dump written is kept; then for *every* dump a fresh
interpreter restores it exactly as jellyfysh/resume.py does and continues to the end.  The resumed event log
(who is next, committed out-state, sampled state; floats bit for bit) must equal the tail of the reference log after
that dump.  In addition the reference log with the dumping events deleted must equal the log of the same
configuration without the dumping tagger.
"""
import concurrent.futures
import json
import os
import shutil
import subprocess
import sys
import tempfile

from .. import bootstrap, specs as specmod
from ..core import HarnessError, VERIF
from ..envdrive import Spec

J = "2018_JCP_149_064113/"


def jobs(ctx):
    """(name, spec, dumping interval, seed)"""
    t = ctx.thorough
    out = []

    def add(name, ini, end, dump, samp=None, chain=None, start=None, n=None, sched=("heap_scheduler", "list_scheduler"),
            seeds=(11,), extra=None):
        for sc in sched:
            for seed in seeds:
                base = specmod.scaled(ini, n, start=start) if n else Spec(name, ini)
                ov = dict(base.overrides)
                ov[("SingleProcessMediator", "scheduler")] = sc
                ov[("FinalTimeEndOfRunEventHandler", "end_of_run_time")] = repr(end)
                from .. import cfg
                c = cfg.load(ini)
                for sec in c.sections():
                    if samp is not None and c.has_option(sec, "sampling_interval"):
                        ov[(sec, "sampling_interval")] = repr(samp)
                    if chain is not None and c.has_option(sec, "chain_time"):
                        old = float(c.get(sec, "chain_time"))
                        ov[(sec, "chain_time")] = repr(chain)
                        for s2 in c.sections():
                            if c.has_option(s2, "chain_length"):
                                ov[(s2, "chain_length")] = repr(float(c.get(s2, "chain_length")) / old * chain)
                ov.update(extra or {})
                out.append(("%s/%s@%d" % (name, sc.split("_")[0], seed),
                            Spec(name, ini, ov, start if n else None, seed), dump, seed))
    add("coulomb/power_bounded_dump", J + "coulomb_atoms/power_bounded_dump.ini", 20.0 if not t else 60.0, 1.63,
        seeds=(11,) if not t else (11, 12, 13))
    # commensurate intervals: exact ties between sampling, end of chain, dumping and end of run
    add("coulomb/power_bounded_dump+ties", J + "coulomb_atoms/power_bounded_dump.ini", 12.0 if not t else 24.0, 1.0,
        samp=0.5, chain=0.75)
    add("coulomb/cell_veto", J + "coulomb_atoms/cell_veto.ini", 0.12 if not t else 0.4, 0.0131, samp=0.0043,
        chain=0.0057)
    add("coulomb/cell_veto+crowd4", J + "coulomb_atoms/cell_veto.ini", 0.06 if not t else 0.2, 0.0093, samp=0.0043,
        chain=0.0057, start=specmod.crowded_atoms(), n=4, sched=("heap_scheduler",) if not t else
        ("heap_scheduler", "list_scheduler"))
    # several occupants in the nearby cells: the order in which the activator hands out pair handlers (and with it the
    # consumption of the random stream) must survive a dump / differ not between two builds of the same run
    add("coulomb/cell_veto*8", J + "coulomb_atoms/cell_veto.ini", 0.03 if not t else 0.1, 0.0053, samp=0.0043,
        chain=0.0057, n=8, sched=("heap_scheduler",))
    add("coulomb/cell_bounded*8", J + "coulomb_atoms/cell_bounded.ini", 0.05 if not t else 0.2, 0.0093, samp=0.0043,
        chain=0.0057, n=8, sched=("list_scheduler",))
    # many pair handlers: the C heap grows past its first reallocation threshold (63 entries) and shrinks again
    # (bounds chosen so that several dumps are taken after the heap fell below a threshold it had exceeded: the
    # coverage field dumps_of_shrunk_heap must be > 0, see run())
    add("coulomb/power_bounded*12", J + "coulomb_atoms/power_bounded.ini", 2.4 if not t else 6.0, 0.29, samp=0.11,
        chain=0.17, n=12, sched=("heap_scheduler",))
    # a box with L != 1 and several (deep-copied) pair handlers: copies made by the taggers vs objects rebuilt on resume
    add("coulomb/power_bounded*4@L=3", J + "coulomb_atoms/power_bounded.ini", 3.0 if not t else 9.0, 0.41, samp=0.31,
        chain=0.47, n=4, sched=("heap_scheduler",), extra={("HypercubicSetting", "system_length"): "3.0"})
    add("dipoles/cell_bounded", J + "dipoles/cell_bounded.ini", 0.4 if not t else 1.2, 0.047, samp=0.011, chain=0.013)
    add("dipoles/dipole_motion", J + "dipoles/dipole_motion.ini", 5.0 if not t else 16.0, 0.71, samp=0.2, chain=0.27,
        sched=("heap_scheduler",) if not t else ("heap_scheduler", "list_scheduler"))
    add("dipoles/inside_first*3", J + "dipoles/dipole_factors_inside_first.ini", 1.5 if not t else 5.0, 0.217,
        samp=0.07, chain=0.11, n=3, sched=("list_scheduler",) if not t else ("heap_scheduler", "list_scheduler"))
    add("water/cell_veto", J + "water/coulomb_cell_veto_lj_cell_veto.ini", 0.05 if not t else 0.16, 0.0071,
        samp=0.002, chain=0.0027, sched=("heap_scheduler",))
    if t:
        add("dipoles/cell_veto+crowd4", J + "dipoles/cell_veto.ini", 0.04, 0.0053, samp=0.0043, chain=0.0057,
            start=specmod.crowded_dipoles(), n=4, sched=("heap_scheduler",))
        add("hard_di/single", "hard_disk_dipoles/single_hard_disk_dipole.ini", 4.0, 0.37, samp=0.3, chain=0.41)
    return out


def _run_worker(mode, job, timeout=1800):
    jobfile = job["out"] + ".job"
    with open(jobfile, "w") as f:
        json.dump(job, f)
    env = dict(os.environ, JFV_BUILD_DIR=bootstrap.build_dir or "", PYTHONHASHSEED="0", PYTHONWARNINGS="ignore",
               PYTHONDONTWRITEBYTECODE="1")
    p = subprocess.run([bootstrap.PYTHON, os.path.join(VERIF, "jfv", "crashx.py"), mode, jobfile],
                       capture_output=True, text=True, env=env, timeout=timeout, cwd=VERIF)
    if not os.path.exists(job["out"]):
        raise HarnessError("crashx worker (%s) produced no result:\n%s" % (mode, (p.stdout + p.stderr)[-2000:]))
    with open(job["out"]) as f:
        return json.load(f)


def first_diff(a, b):
    for i, (x, y) in enumerate(zip(a, b)):
        if x != y:
            return i, x, y
    if len(a) != len(b):
        i = min(len(a), len(b))
        return i, a[i] if i < len(a) else None, b[i] if i < len(b) else None
    return None


def brief(entry):
    if entry is None:
        return "nothing (log ends)"
    s = json.dumps(entry)
    return s if len(s) < 260 else s[:260] + "..."


def run_job(name, spec, dump, seed, res, stats, pool, only_dump=None):
    work = tempfile.mkdtemp(prefix="jfv_c19_")
    try:
        ref = _run_worker("ref", {"spec": spec.to_json(), "dumping_interval": dump, "seed": seed, "workdir": work,
                                  "out": os.path.join(work, "ref.json")})
        case0 = {"name": name, "spec": spec.to_json(), "dumping_interval": dump, "seed": seed}
        if ref["error"]:
            res.add("reference-run-exception", dict(case0, dump=None, key="reference-run-exception"), "%s: the run with dumping raised %s"
                    % (name, ref["error"][:700]))
            return
        marks = ref["marks"]
        log = ref["log"]
        stats["dumps"] += len(marks)
        stats["events"] += len(log)
        stats["per_job"][name] = {"events": len(log), "dumps": len(marks), "ended": bool(ref.get("ended"))}
        # resumes
        ks = list(range(len(marks))) if only_dump is None else ([only_dump] if only_dump >= 0 else [])
        futs = {}
        for k in ks:
            job = {"dump": os.path.join(work, "dump_%d.dat" % k), "out": os.path.join(work, "res_%d.json" % k),
                   "max_events": 3 * len(log) + 300}  # a resumed run that lost its end-of-run event never ends
            futs[pool.submit(_run_worker, "resume", job)] = k
        for fut in concurrent.futures.as_completed(futs):
            k = futs[fut]
            r = fut.result()
            stats["resumes"] += 1
            pd, pr = (ref.get("probes") or [None] * len(marks))[k], (r.get("probes") or [None])[0]
            if pd and pr:
                stats["potential_objects_compared"] = stats.get("potential_objects_compared", 0) + len(pd)
                for a, b in zip(pd, pr):
                    if a != b:
                        res.add("restored-potential-differs", dict(dict(case0, dump=k), key="restored-potential-differs"),
                                "%s: dump %d: the %s of event handler %d (%s) restored from the dump answers %r at the "
                                "probe separations, the dumped object answered %r"
                                % (name, k, a[2], a[0], a[1], b[3][:4], a[3][:4]))
                        break
            hd, hr = (ref.get("heap") or [None] * len(marks))[k], (r.get("heap") or [None])[0]
            if hd and hr and hr[1] < hd[1]:
                # the dumped C heap had shrunk below an allocation threshold it once exceeded: the restored heap is
                # allocated smaller than the dumped bookkeeping says
                stats["dumps_of_shrunk_heap"] = stats.get("dumps_of_shrunk_heap", 0) + 1
            if hd:
                stats["max_heap_entries_at_dump"] = max(stats.get("max_heap_entries_at_dump", 0), hd[0])
            tail = log[marks[k]:]
            case = dict(case0, dump=k)
            if r["error"]:
                res.add("resume-exception", dict(case, key="resume-exception"), "%s: resuming dump %d of %d raised %s"
                        % (name, k, len(marks), r["error"][:700]))
                continue
            d = first_diff(r["log"], tail)
            stats["compared_events"] += len(tail)
            if d is not None:
                i, mine, theirs = d
                res.add("resume-differs", dict(case, key="resume-differs"), "%s: resuming dump %d of %d (taken after event %d of %d) diverges at "
                        "event %d after the dump: resumed run has %s, the uninterrupted run %s"
                        % (name, k, len(marks), marks[k], len(log), i, brief(mine), brief(theirs)))
        # with exact ties the order of simultaneous events is unspecified and legitimately depends on what else is in
        # the scheduler, so the with/without-dumping comparison is only made for tie-free configurations
        if (only_dump is None or only_dump == -1) and "+ties" not in name:
            plain = _run_worker("plain", {"spec": spec.to_json(), "seed": seed, "workdir": work,
                                          "out": os.path.join(work, "plain.json")})
            if plain["error"]:
                res.add("plain-run-exception", dict(case0, dump=-1, key="plain-run-exception"), "%s: the run without dumping raised %s"
                        % (name, plain["error"][:700]))
            else:
                stripped = [e for e in log if not (e[0] == "commit" and "Dumping" in (e[1] or ""))]
                d = first_diff(stripped, plain["log"])
                stats["compared_events"] += len(stripped)
                if d is not None:
                    i, mine, theirs = d
                    res.add("dumping-changes-run", dict(case0, dump=-1, key="dumping-changes-run"), "%s: the run that writes dumps differs from "
                            "the run without dumping at event %d: %s vs %s" % (name, i, brief(mine), brief(theirs)))
    finally:
        shutil.rmtree(work, ignore_errors=True)


def order_stability(res, stats):
    """A necessary condition for bit-equal resumes in cell systems, decided deterministically: the order in which the
    real excluded-cells tagger hands out its pair in-states (= the order in which pair handlers draw from the random
    stream) must be the same in a second build, in a fresh interpreter, and for objects restored from a dill dump
    (in-process and in a fresh interpreter)."""
    import base64
    import dill
    from .. import crashx
    work = tempfile.mkdtemp(prefix="jfv_c19o_")
    try:
        for counts, layers in (((3, 5, 7), 1), ((6, 6, 6), 2)):
            objs, here = crashx.nearby_order(counts, layers)
            _, again = crashx.nearby_order(counts, layers)
            blob = dill.dumps(objs)
            _, restored = crashx.nearby_order(counts, layers, blob)
            other = _run_worker("order", {"counts": list(counts), "layers": layers,
                                          "out": os.path.join(work, "o1.json")})["order"]
            other_restored = _run_worker("order", {"counts": list(counts), "layers": layers,
                                                   "blob": base64.b64encode(blob).decode(),
                                                   "out": os.path.join(work, "o2.json")})["order"]
            stats["order_comparisons"] = stats.get("order_comparisons", 0) + 4 * len(here)
            if len(here) < 8:
                raise HarnessError("order-stability harness: only %d nearby in-states" % len(here))
            for name, o in (("a second build in the same process", again), ("the system restored from a dump", restored),
                            ("a build in a fresh interpreter", other),
                            ("the system restored from a dump in a fresh interpreter", other_restored)):
                if o != here:
                    k = next(i for i, (a, b) in enumerate(zip(here, o)) if a != b)
                    res.add("cell-order-not-reproducible", {"order_stability": True},
                            "grid %r, %d neighbour layers, 14 units: the excluded-cells tagger hands out its pair "
                            "in-states in the order %r..., in %s in the order %r... (first difference at position %d): "
                            "pair handlers then consume the random stream in a different order"
                            % (counts, layers, here[:4], name, o[:4], k))
                    break
    finally:
        shutil.rmtree(work, ignore_errors=True)
        import jellyfysh.setting as setting
        setting.reset()


def run(ctx):
    from ..core import Result
    res = Result()
    res.level = "fault_enumeration"
    stats = {"dumps": 0, "events": 0, "resumes": 0, "compared_events": 0, "per_job": {}}
    all_jobs = jobs(ctx)
    with concurrent.futures.ThreadPoolExecutor(max_workers=ctx.cores) as pool:
        with concurrent.futures.ThreadPoolExecutor(max_workers=max(2, ctx.cores // 4)) as outer:
            futs = [outer.submit(run_job, name, spec, dump, seed, res, stats, pool) for name, spec, dump, seed in
                    all_jobs]
            for f in futs:
                f.result()
    order_stability(res, stats)
    res.coverage = {
        "evaluations": stats["resumes"] + len(all_jobs), "distinct_nontrivial": stats["dumps"],
        "cell_order_comparisons": stats.get("order_comparisons", 0),
        "dumps_of_shrunk_heap": stats.get("dumps_of_shrunk_heap", 0),
        "potential_objects_compared": stats.get("potential_objects_compared", 0),
        "max_heap_entries_at_dump": stats.get("max_heap_entries_at_dump", 0),
        "rule": "every dump written by each reference run (real DumpingOutputHandler, real Mersenne Twister, dumping "
                "interval incommensurate with the other intervals; one variant with commensurate intervals = exact "
                "ties) is resumed in a fresh interpreter exactly as resume.py does and compared event by event, bit "
                "for bit, with the uninterrupted run; plus run-with-dumps == run-without-dumps. distinct_nontrivial "
                "= number of distinct dump points resumed",
        "samples": [{"job": n, **v} for n, v in list(stats["per_job"].items())[:4]],
        "jobs": stats["per_job"], "events_compared": stats["compared_events"], "exhaustive": True,
    }
    res.assumptions = ["the enumeration is over dump points of a few seeded runs, not over seeds",
                       "resume is performed with the same interpreter and platform as the dump"]
    return res


def replay(ctx, case):
    from ..core import Result
    r = Result()
    if case.get("order_stability"):
        order_stability(r, {})
        return sorted(set(v.key for v in r.violations)) or None
    stats = {"dumps": 0, "events": 0, "resumes": 0, "compared_events": 0, "per_job": {}}
    spec = Spec.from_json(case["spec"])
    # A run that is not reproducible from one process to the next (the defect this property is about) need not fail
    # in every repetition: the case is re-run up to four times and counts as reproduced if it fails once.
    for _ in range(4):
        with concurrent.futures.ThreadPoolExecutor(max_workers=2) as pool:
            run_job(case["name"], spec, case["dumping_interval"], case["seed"], r, stats, pool,
                    only_dump=case.get("dump") if case.get("dump") is not None else -2)
        if any(v.key == case.get("key") for v in r.violations):
            return [case["key"]]
    return None
