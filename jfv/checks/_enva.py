"""Common driver of the engine-A checks (C07, C08, C09, C11, C12 and the run parts of C13)."""
import collections
import fnmatch
import json
import os

from .. import envdrive, specs as specmod
from ..core import HarnessError, VERIF


def anchor_patterns(prop):
    with open(os.path.join(VERIF, "properties.jsonl")) as f:
        for line in f:
            p = json.loads(line)
            if p["id"] == prop:
                return list(p["anchors"]["files"])
    raise HarnessError("property %s not found in properties.jsonl" % prop)


def run_monitors(ctx, res, monitors, spec_filter=None, prefixes=None, specs_override=None,
                 resume_legs=(3, 6, 10, 15, 21), quiet=False, quick_baselines=None, deviations=1, derive=True):
    tier = "thorough" if ctx.thorough else "quick"
    sp = specs_override if specs_override is not None else specmod.families(tier)
    if spec_filter is not None:
        sp = [s for s in sp if spec_filter(s)]
    k = 2 if ctx.thorough else 1
    from ..envx import QUIET, BUSY
    baselines = [0, 1, 2, 3, QUIET, BUSY] if ctx.thorough else [0, 1 + ctx.seed % 3] + ([QUIET] if quiet else [])
    if quick_baselines is not None and not ctx.thorough:
        baselines = list(quick_baselines)
    bad, st = envdrive.explore(sp, monitors, deviations, baselines, ctx.cores,
                              derive=specmod.fast_variant if derive else None, resume_legs=resume_legs, followup=True)
    sp = sp + st.get("derived_specs", [])
    if ctx.thorough and deviations >= 1:
        # two deviations around the constant-median baseline on the cheaper specs
        cheap = [s for s in sp if st["per_spec"].get(s.name, {}).get("draws", 10 ** 9) <= 110]
        bad2, st2 = envdrive.explore(cheap, monitors, 2, [0], ctx.cores)
        bad += bad2
        st["executions"] += st2["executions"]
        st["outcomes"] |= st2["outcomes"]
        st["k2_specs"] = [s.name for s in cheap]
    if st["build_failures"]:
        for name, err in st["build_failures"]:
            res.add("build-failure", {"spec": name}, "configuration %s could not be built: %s" % (name, err[:600]))
    byname = {s.name: s for s in sp}
    wanted = tuple(prefixes or [m + ":" for m in monitors])
    anchors = anchor_patterns(ctx.prop)
    seen = set()
    st["float_ties"] = 0
    st["foreign_exceptions"] = collections.Counter()
    for r in bad:
        for key, msg in r["violations"]:
            if key == "exception-tie":
                st["float_ties"] += 1
                continue
            if key.startswith("exception:"):
                # an exception escaping the code under test counts for the property whose anchored code raised it
                # (TagActivatorError: demand exceeds supply -> C09 wherever it surfaces)
                rel = key.split(":", 1)[1]
                mine = any(fnmatch.fnmatch("jellyfysh/" + rel, pat) for pat in anchors)
                if "TagActivatorError" in msg:
                    mine = ctx.prop == "C09"
                if not mine:
                    st["foreign_exceptions"][rel] += 1
                    continue
                key = "exception"
            elif not key.startswith(wanted):
                continue
            case = {"spec": byname[r["spec"]].to_json(), "baseline": r["baseline"],
                    "deviations": [[list(_jl(k)), a] for k, a in r["deviations"]],
                    "horizon": byname[r["spec"]].horizon, "monitors": list(monitors), "key": key}
            tag = (r["spec"], key)
            if tag in seen:
                continue
            seen.add(tag)
            res.add(key, case, "[%s, baseline %d, deviations %r] %s" % (r["spec"], r["baseline"], r["deviations"], msg))
    return st


def _jl(k):
    return [list(_jl(x)) if isinstance(x, tuple) else x for x in k]


def coverage(st, monitors, extra_rule=""):
    per = {n: {"executions": p["executions"], "distinct_outcomes": len(p["outcomes"]), "draws": p["draws"],
               "commits": p["commits"]} for n, p in st["per_spec"].items()}
    sample = None
    for n, p in st["per_spec"].items():
        sample = {"spec": n, "baseline": 0, "deviations": [], "horizon_legs": p["commits"]}
        break
    return {
        "evaluations": st["executions"], "distinct_nontrivial": len(st["outcomes"]),
        "rule": "one evaluation = one complete execution of the real mediator for H legs (25 shipped / 40 templates) "
                "with every random draw answered from a scripted alphabet (expovariate: 2%/50%/98% quantile; uniform: "
                "0.25/0.75; randint/choice: all values); all executions with <= k deviations from a baseline answer "
                "function are enumerated (k=1 around each baseline, plus follow-ups: a second deviation at every draw "
                "of the same handler and leg that exists only because of the first one -- 'the event fires and is "
                "rejected'; baselines: constant median, hashed mixtures, all-budgets-large (quiet), all-budgets-small "
                "(busy, thorough); resume-at-leg-k as a further answer; thorough: k=2 around the median baseline on "
                "specs with <= 110 draws); monitors " + ", ".join(monitors) + " run on every leg / commit. "
                "distinct_nontrivial = distinct commit logs (handler, time, out-state) observed. " + extra_rule,
        "samples": [sample, {"committed_event_counts": dict(st["handlers"].most_common(12))}],
        "per_configuration": per, "capped": st["capped"], "exhaustive": not st["capped"],
        "float_ties_observed": st.get("float_ties", 0),
        "exceptions_in_code_not_anchored_by_this_property": dict(st.get("foreign_exceptions", {})),
        "configurations": len(per), "followup_executions": st.get("followups", 0),
    }


def replay(ctx, case, monitors=None):
    ex = envdrive.replay_case(case, tuple(case.get("monitors") or monitors))
    want = case.get("key")
    keys = sorted(set("exception" if k.startswith("exception:") else k for k, _ in ex.violations))
    keys = [k for k in keys if k == want]
    return keys or None


ASSUMPTIONS = [
    "all randomness enters through the global random module (proved per execution: hidden generator state unchanged)",
    "draws are identified by (leg, phase, tagger, in-state identifiers, kind, ordinal), not by global position",
    "answers come from a finite alphabet; histories needing more than k simultaneous non-baseline answers, more legs "
    "than the horizon or more particles than the listed configurations are not covered",
    "hard_disk_dipoles*.ini run with a harness start configuration (MDAnalysis / PDB input unavailable)",
]
