"""C09 (engine A) -- see jfv/envx.py for the monitor."""
from . import _enva

MON = ("C09",)
FILTER = None
RULE = ("C09 monitor at every leg: for each tagger, the multiset of in-state identifier tuples of its pending events "
        "equals what its real yield_identifiers_send_event_time generates for the current active state "
        "(interaction and cell-boundary taggers; counts for the others); scheduler live set == running handlers; "
        "TagActivatorError anywhere is a violation.")


def run(ctx):
    from ..core import Result
    res = Result()
    st = _enva.run_monitors(ctx, res, MON, FILTER)
    res.coverage = _enva.coverage(st, MON, RULE)
    res.assumptions = list(_enva.ASSUMPTIONS)
    return res


def replay(ctx, case):
    return _enva.replay(ctx, case, MON)
