"""C20 -- the multi-process mediator commits the same events as the single-process mediator.

Engine D: the real MultiProcessMediator on in-process fakes of multiprocessing (jfv/schedx.py) under a controlled
scheduler.  Schedules are enumerated by deviation bounding around several baseline policies:

    low / high        continue the running thread; when it blocks take the lowest / highest enabled thread id
    rr                switch to the next enabled thread at *every* primitive operation (maximal interleaving)
    starve-k          worker k runs only when nothing else can (one arbitrarily slow worker; for every worker k)

and, around each baseline, every schedule that deviates at exactly one scheduling point (quick) / at two points
(thorough, capped) to any other enabled thread.  For every schedule: commit log and sample log must equal those of the
SingleProcessMediator run with per-event-handler random streams started from the fork-time generator state; no
exception, no deadlock; after post_run no fake process is alive.  One free-running run per configuration with real OS
processes (children reset to the fork-time generator state) validates the fakes against the real primitives.
"""
import collections
import contextlib
import hashlib
import io
import os
import random

from .. import cfg, par, schedx, specs as specmod
from ..core import HarnessError
from ..envdrive import Spec
from ..fl import enc

J = "2018_JCP_149_064113/"


class Stop(Exception):
    pass


def configurations(ctx):
    T = specmod.TEMPLATE_DIR
    out = [
        Spec("tpl/soft_direct", os.path.join(T, "soft_direct.ini")),
        specmod.scaled("hard_disk_dipoles/hard_disk_dipoles_cells.ini", 3, start=specmod.hard_disk_dense(),
                       name="hard_di/hard_disk_dipoles_cells+dense3"),
        Spec("dipoles/atom_factors~direct", J + "dipoles/atom_factors.ini", overrides={
            ("Coulomb", "event_handler"): "coulomb_direct_event_handler (two_leaf_unit_event_handler)",
            ("CoulombDirectEventHandler", "potential"): "coulomb_direct_potential (inverse_power_potential)",
            ("CoulombDirectEventHandler", "charge"): "electric_charge",
            ("CoulombDirectPotential", "power"): "1", ("CoulombDirectPotential", "prefactor"): "0.05"}),
    ]
    return out


def make_config(spec, mp, cores):
    c = cfg.load(spec.ini, spec.overrides, spec.start)
    if mp:
        c.set("Run", "mediator", "multi_process_mediator")
        if not c.has_section("MultiProcessMediator"):
            c.add_section("MultiProcessMediator")
        for k, v in c.items("SingleProcessMediator"):
            c.set("MultiProcessMediator", k, v)
        c.set("MultiProcessMediator", "number_cores", str(cores))
    return c


def _digest_out(out_state):
    def rec(c):
        u = c.value
        return (u.identifier, tuple(u.position), None if u.velocity is None else tuple(u.velocity),
                None if u.time_stamp is None else (u.time_stamp.quotient, u.time_stamp.remainder),
                tuple(rec(x) for x in c.children))
    return tuple(rec(c) for c in out_state)


def _attach(med, log, H):
    sh = med._state_handler
    real = sh.insert_into_global_state
    depth = [0]

    def ins(out_state):
        if depth[0] == 0:
            if sum(1 for e in log if e[0] == "commit") >= H:
                raise Stop()
            log.append(("commit", type(med._event_handler_with_shortest_event_time).__name__,
                        _digest_out(out_state)))
        depth[0] += 1
        try:
            return real(out_state)
        finally:
            depth[0] -= 1
    sh.insert_into_global_state = ins
    ioh = med._input_output_handler

    def write(name, *args):
        log.append(("write", name, _digest_out(args[0]) if args and isinstance(args[0], (list, tuple)) else None))
    ioh.write = write


def run_sp(spec, H, seed=5):
    """Single-process reference with per-handler random streams starting at the fork-time state."""
    from jellyfysh.base.exceptions import EndOfRun
    config = make_config(spec, False, 0)
    med = cfg.build(config, spec.start, seed)
    log = []
    _attach(med, log, H)
    S0 = random.getstate()
    streams = {}
    for h in med._event_handlers_list:
        for name in ("send_event_time", "send_out_state"):
            f = getattr(h, name)

            def mk(f, h):
                def w(*a, **k):
                    outer = random.getstate()
                    random.setstate(streams.get(h, S0))
                    try:
                        return f(*a, **k)
                    finally:
                        streams[h] = random.getstate()
                        random.setstate(outer)
                return w
            setattr(h, name, mk(f, h))
    try:
        with contextlib.redirect_stdout(io.StringIO()):
            med.run()
    except (EndOfRun, Stop):
        pass
    return log


def default_choice(policy, enabled, cur):
    kind = policy[0]
    if kind == "low":
        return cur if cur in enabled else min(enabled)
    if kind == "high":
        return cur if cur in enabled else max(enabled)
    if kind == "rr":
        later = [t for t in enabled if cur is not None and t > cur]
        return min(later) if later else min(enabled)
    if kind == "starve":
        cand = [t for t in enabled if t != policy[1]] or enabled
        return cur if cur in cand else min(cand)
    raise HarnessError("unknown policy %r" % (policy,))


def run_mp(spec, cores, H, policy, schedule, seed=5):
    """One execution of the real MultiProcessMediator on the fakes. Returns dict(log, points, error, leaked, stages)."""
    from jellyfysh.base.exceptions import EndOfRun
    points = []

    def chooser(enabled, cur, desc):
        i = len(points)
        default = default_choice(policy, enabled, cur)
        choice = schedule.get(i, default)
        if choice not in enabled:
            raise HarnessError("replay divergence at scheduling point %d (%s): thread %r not enabled %r"
                               % (i, desc, choice, enabled))
        points.append((cur, tuple(enabled), default, desc))
        return choice
    sched, uninstall = schedx.install(chooser)
    error = None
    log = []
    stats = collections.Counter()
    stages = set()
    leaked = None
    try:
        config = make_config(spec, True, cores)
        med = cfg.build(config, spec.start, seed)
        _attach(med, log, H)
        act = med._activator
        real_trash = act.get_trashable_events

        def trash(h):
            r = real_trash(h)
            st = med._event_handlers_state
            stages.add(tuple(sorted(collections.Counter(s.name for s in st.values()).items())))
            for x in r:
                s = st[med._pipes[x]].name
                if s == "out_state_started":
                    stats["trashed_while_out_state_started"] += 1
                elif x in med._out_states and x is not h:
                    stats["precomputed_discarded"] += 1
            if h in med._out_states:
                stats["precomputed_used"] += 1
            return r
        act.get_trashable_events = trash
        try:
            with contextlib.redirect_stdout(io.StringIO()):
                med.run()
        except (EndOfRun, Stop):
            pass
        with contextlib.redirect_stdout(io.StringIO()):
            med.post_run()
        leaked = [i for i, p in enumerate(sched.processes) if p.is_alive()]
    except schedx.Deadlock as e:
        error = "deadlock: %s" % e
    except HarnessError:
        uninstall()
        raise
    except Exception as e:
        import traceback
        tb = traceback.extract_tb(e.__traceback__)
        where = next((fr for fr in reversed(tb) if "/jellyfysh/" in fr.filename), tb[-1])
        error = "%r at %s:%d" % (e, where.filename.split("/jellyfysh/")[-1], where.lineno)
    finally:
        if sched.errors and error is None:
            error = "exception in a worker process: " + "; ".join(sched.errors[:3])
        elif sched.errors:
            error += " | worker: " + "; ".join(sched.errors[:2])
        uninstall()
    return {"log": log, "points": points, "error": error, "leaked": leaked, "stages": stages, "stats": stats}


def judge(ref, r):
    """-> (key, message) or None"""
    if r["error"]:
        key = "deadlock" if r["error"].startswith("deadlock") else "exception"
        return key, r["error"][:500]
    if r["leaked"]:
        return "leaked-workers", "worker processes %r are still alive after post_run" % (r["leaked"],)
    if r["log"] != ref:
        i = next((i for i, (a, b) in enumerate(zip(r["log"], ref)) if a != b), min(len(r["log"]), len(ref)))
        mine = r["log"][i] if i < len(r["log"]) else None
        want = ref[i] if i < len(ref) else None
        return "log-differs", "event %d: multi-process run has %s, single-process run %s" % (
            i, repr(mine)[:220], repr(want)[:220])
    return None


def explore_item(item):
    spec, cores, H, policy, ref, schedules = item
    out = []
    for sch in schedules:
        if sch.get("second_level"):
            # thorough: all (subsampled) second deviations after a given first deviation
            first = {k: v for k, v in sch.items() if k != "second_level"}
            r1 = run_mp(spec, cores, H, policy, first)
            (i0, _), = first.items()
            later = [{**first, i: alt} for i, (cur, en, dflt, desc) in enumerate(r1["points"]) if i > i0
                     for alt in en if alt != dflt]
            cap = sch["second_level"]
            if len(later) > cap:
                step = len(later) / float(cap)
                later = [later[int(j * step)] for j in range(cap)]
            for s2 in later:
                r = run_mp(spec, cores, H, policy, s2)
                v = judge(ref, r)
                out.append((s2, v, hashlib.blake2b(repr(r["log"]).encode(), digest_size=8).hexdigest(),
                            len(r["points"]), r["stages"], dict(r["stats"])))
            continue
        r = run_mp(spec, cores, H, policy, sch)
        v = judge(ref, r)
        out.append((sch, v, hashlib.blake2b(repr(r["log"]).encode(), digest_size=8).hexdigest(), len(r["points"]),
                    r["stages"], dict(r["stats"])))
    return out


def real_process_run(spec, cores, H, seed=5):
    """Free-running conformance run with real OS processes (fork), children reset to the fork-time generator state."""
    import multiprocessing
    from jellyfysh.base.exceptions import EndOfRun
    import jellyfysh.mediator.multi_process_mediator.multi_process_mediator as mpm
    orig_rip, orig_start = mpm.run_in_process, mpm.MultiProcessMediator._start_processes
    G = {}

    def _start(self):
        G["S0"] = random.getstate()
        return orig_start(self)

    def _rip(self, *a):
        random.setstate(G["S0"])
        return orig_rip(self, *a)
    mpm.run_in_process, mpm.MultiProcessMediator._start_processes = _rip, _start
    log = []
    med = None
    import signal

    class RealTimeout(Exception):
        pass

    def on_alarm(signum, frame):
        raise RealTimeout()
    old = signal.signal(signal.SIGALRM, on_alarm)
    signal.alarm(120)
    try:
        med = cfg.build(make_config(spec, True, cores), spec.start, seed)
        _attach(med, log, H)
        try:
            with contextlib.redirect_stdout(io.StringIO()):
                med.run()
        except (EndOfRun, Stop):
            pass
        except RealTimeout:
            log.append(("deadlock", "the run with real OS processes did not finish within 120 s", ()))
        except Exception as e:  # e.g. EOFError because a worker process died
            log.append(("exception", "the run with real OS processes raised %r" % (e,), ()))
    finally:
        signal.alarm(0)
        signal.signal(signal.SIGALRM, old)
        mpm.run_in_process, mpm.MultiProcessMediator._start_processes = orig_rip, orig_start
        if med is not None:
            with contextlib.redirect_stdout(io.StringIO()):
                med.post_run()
    alive = [p for p in multiprocessing.active_children()]
    for p in alive:
        p.terminate()
    return log, len(alive)


def _real_worker(item):
    spec, cores, H = item
    return real_process_run(spec, cores, H)


def run(ctx):
    from ..core import Result
    from ..env import deterministic_cell_order
    deterministic_cell_order()
    res = Result()
    res.level = "model_checking"
    H = 6 if ctx.thorough else 4
    core_counts = (2, 3, 4)
    confs = configurations(ctx)
    total = 0
    outcomes = set()
    stages = set()
    stats = collections.Counter()
    per = {}
    capped = False
    points_total = 0
    for spec in confs:
        ref = run_sp(spec, H)
        ref2 = run_sp(spec, H)
        if ref != ref2:
            raise HarnessError("single-process reference of %s is not reproducible" % spec.name)
        for cores in (core_counts if (ctx.thorough or spec is confs[0]) else core_counts[:2]):
            # baselines: the number of worker threads is known after a first run
            first = run_mp(spec, cores, H, ("low",), {})
            again = run_mp(spec, cores, H, ("low",), {})
            if [p[:3] for p in first["points"]] != [p[:3] for p in again["points"]]:
                raise HarnessError("fake multi-process run of %s is not reproducible under a fixed schedule" % spec.name)
            nthreads = 1 + max((max(p[1]) for p in first["points"]), default=0)
            policies = [("low",), ("high",), ("rr",)] + [("starve", k) for k in range(1, nthreads)]
            items = []
            base_results = {}
            for pol in policies:
                r = run_mp(spec, cores, H, pol, {})
                base_results[pol] = r
                v = judge(ref, r)
                total += 1
                points_total += len(r["points"])
                outcomes.add(hashlib.blake2b(repr(r["log"]).encode(), digest_size=8).hexdigest())
                stages |= r["stages"]
                stats.update(r["stats"])
                if v:
                    res.add(v[0], {"spec": spec.to_json(), "cores": cores, "H": H, "policy": list(pol),
                                   "schedule": []}, "[%s, %d cores, policy %r, no deviation] %s"
                            % (spec.name, cores, pol, v[1]))
                    continue
                devs = [{i: alt} for i, (cur, en, dflt, desc) in enumerate(r["points"]) for alt in en if alt != dflt]
                cap = 2000 if ctx.thorough else {"low": 400, "rr": 300}.get(pol[0], 100)
                if len(devs) > cap:
                    # keep an even spread over the whole execution
                    step = len(devs) / float(cap)
                    devs = [devs[int(j * step)] for j in range(cap)]
                    capped = True
                for j in range(0, len(devs), 25):
                    items.append((spec, cores, H, pol, ref, devs[j:j + 25]))
                if ctx.thorough and pol[0] in ("low", "rr") and cores == 3:
                    # two deviations: 40 evenly spread first deviations x 40 evenly spread later ones
                    step = max(1, len(devs) // 40)
                    for d1 in devs[::step][:40]:
                        items.append((spec, cores, H, pol, ref, [dict(d1, second_level=40)]))
            for (sp_, c_, _, pol, _, _), outs in zip(items, par.pmap(explore_item, items, ctx.cores)):
                for sch, v, oc, npts, stg, stt in outs:
                    total += 1
                    outcomes.add(oc)
                    stages |= stg
                    stats.update(stt)
                    if v:
                        res.add(v[0], {"spec": spec.to_json(), "cores": cores, "H": H, "policy": list(pol),
                                       "schedule": sorted(sch.items())},
                                "[%s, %d cores, policy %r, deviation %r] %s" % (spec.name, cores, pol, sch, v[1]))
            per["%s/%d cores" % (spec.name, cores)] = {"threads": nthreads, "policies": len(policies),
                                                       "points_default": len(first["points"])}
        if len(res.violations) > 50:
            break
    # conformance of the fakes: real OS processes, free running (in a forked child so that this process stays clean)
    conf = {}
    for spec in confs[:1] if not ctx.thorough else confs:
        ref = run_sp(spec, H)
        for cores in (2, 3) if not ctx.thorough else (2, 3, 8):
            log, alive = real_process_run(spec, cores, H)
            ok = log == ref
            conf["%s/%d" % (spec.name, cores)] = {"equal": ok, "left_over_processes": alive}
            if not ok:
                res.add("real-processes-differ", {"spec": spec.to_json(), "cores": cores, "H": H, "real": True},
                        "[%s, %d cores] free-running run with real OS processes differs from the single-process run"
                        % (spec.name, cores))
            if alive:
                res.add("leaked-workers", {"spec": spec.to_json(), "cores": cores, "H": H, "real": True},
                        "[%s, %d cores] %d real worker processes alive after post_run" % (spec.name, cores, alive))
    res.coverage = {
        "states": points_total, "transitions": total, "traces_validated_against_impl": total,
        "evaluations": total, "distinct_nontrivial": len(stages) + len(outcomes),
        "rule": "schedules of the real MultiProcessMediator on fake multiprocessing primitives: 3 configurations x "
                "cores {2,3,4} x H=%d commits x baseline policies {low, high, round-robin, starve-k for every worker} "
                "x every single-point deviation (capped per baseline: %s); oracle: commit+sample log == "
                "single-process run, no exception/deadlock/leaked worker. states = scheduling points of the baseline "
                "executions, transitions = schedules executed; distinct_nontrivial = distinct mediator stage vectors "
                "+ distinct logs observed" % (H, "yes" if capped else "no"),
        "samples": [{"policy": "starve-2", "deviation": {"point": 17, "run": 3}},
                    {"stage_vectors": [list(map(list, s)) for s in sorted(stages)][:6]}],
        "stage_vectors": len(stages), "distinct_logs": len(outcomes), "mediator_paths": dict(stats),
        "per_configuration": per, "real_process_conformance": conf, "capped": capped, "exhaustive": not capped,
        "explanation": "no separate model: every schedule is executed on the real mediator code",
    }
    res.assumptions = ["fakes model pipes (pickling), events, bounded semaphore, fork-copy of the handler and per-process "
                       "random state; OS-level failures (killed worker, full pipe buffer) are not modelled",
                       "configurations whose out-state computation draws no random numbers (as the property demands)",
                       "deviation bound 1 (quick) around 3 + #workers baseline policies"]
    return res


def replay(ctx, case):
    from ..env import deterministic_cell_order
    deterministic_cell_order()
    spec = Spec.from_json(case["spec"])
    ref = run_sp(spec, case["H"])
    if case.get("real"):
        log, alive = real_process_run(spec, case["cores"], case["H"])
        keys = []
        if log != ref:
            keys.append("real-processes-differ")
        if alive:
            keys.append("leaked-workers")
        return keys or None
    r = run_mp(spec, case["cores"], case["H"], tuple(case["policy"]), {int(i): int(t) for i, t in case["schedule"]})
    v = judge(ref, r)
    return [v[0]] if v else None
