"""C05 -- lifting schemes balance the probability flow.

Engine C: every integer derivative table (values -3..3, sum zero, a positive entry) of 2..5 (quick) / 2..6 (thorough)
entries in every order, every positive entry as the active unit, the three real lifting classes, with the uniform
draws scripted on a midpoint grid that never touches a breakpoint: the counts are exact integers, so global balance
    sum_a q_a * #{draws selecting k | a active} == (grid points per unit) * |q_k|
is checked without tolerance.  Closed end points of the draw range, float tables (near-cancelling / widely different
magnitudes; breakpoints located by bisection on the real code) and state independence (fresh object == reset object)
are checked in addition.
"""
import itertools
import math
from fractions import Fraction

from .. import par
from ..fl import dec, enc
from ..seam import Seam, scripted

M = 4  # grid points per unit of derivative
ONE_BELOW = 1.0 - 2.0 ** -53
SCHEMES = ["inside_first_lifting.InsideFirstLifting", "outside_first_lifting.OutsideFirstLifting",
           "ratio_lifting.RatioLifting"]


def _cls(name):
    import importlib
    mod, cls = name.split(".")
    return getattr(importlib.import_module("jellyfysh.lifting." + mod), cls)


def select(lifting, table, active, answers, idents=None):
    """Run one real selection: reset, insert the whole table in order, ask for the new active identifier."""
    lifting.reset()
    with Seam(scripted(list(answers))) as seam:
        for idx, v in enumerate(table):
            lifting.insert(float(v), idx if idents is None else idents[idx], idx == active)
        k = lifting.get_active_identifier()
        ndraws = len(seam.log)
    return k, ndraws


def n_draws(scheme):
    return 2 if scheme.endswith("RatioLifting") else 1


def check_int_table(case):
    """case = ("int", scheme, table)"""
    _, scheme, table = case
    cls = _cls(scheme)
    lifting = cls()
    fails = []
    ratio = n_draws(scheme) == 2
    sneg = -sum(v for v in table if v < 0)
    flow = {}
    nexec = 0
    for a, qa in enumerate(table):
        if qa <= 0:
            continue
        if ratio:
            grid = [(0.5, (j + 0.5) / (sneg * M)) for j in range(sneg * M)]
            weight = Fraction(qa, sneg)
        else:
            grid = [((j + 0.5) / (qa * M),) for j in range(qa * M)]
            weight = Fraction(1)
        ends = [(0.0, 0.0), (ONE_BELOW, ONE_BELOW), (0.0, ONE_BELOW), (ONE_BELOW, 0.0)] if ratio \
            else [(0.0,), (ONE_BELOW,)]
        for kind, draws in (("grid", grid), ("end", ends)):
            for ans in draws:
                try:
                    k, nd = select(lifting, table, a, ans)
                except Exception as e:
                    fails.append(("exception", "%s table=%r active=%d draws=%r raised %r" % (scheme, table, a, ans, e)))
                    continue
                nexec += 1
                if not (isinstance(k, int) and 0 <= k < len(table)) or table[k] >= 0:
                    fails.append(("selects-nonnegative", "%s table=%r active=%d draws=%r selected unit %r with "
                                  "derivative %r" % (scheme, table, a, ans, k,
                                                     table[k] if isinstance(k, int) and 0 <= k < len(table) else None)))
                if kind == "grid":
                    flow[k] = flow.get(k, 0) + weight
                else:
                    # state independence: a fresh object gives the same answer as the reused one
                    k2, _ = select(cls(), table, a, ans)
                    if k2 != k:
                        fails.append(("state-dependent", "%s table=%r active=%d draws=%r: reused object selected %r, "
                                      "fresh object %r" % (scheme, table, a, ans, k, k2)))
    for k, v in enumerate(table):
        want = M * (-v) if v < 0 else 0
        if flow.get(k, 0) != want:
            fails.append(("flow-balance", "%s table=%r: flow into unit %d is %s/%d, its negative derivative is %d"
                          % (scheme, table, k, flow.get(k, 0), M, -v if v < 0 else 0)))
    sig = (scheme, len(table), 0 in table, sum(1 for v in table if v > 0) > 1, sum(1 for v in table if v < 0) > 1)
    return (sig, nexec), fails


def check_sequence(case):
    """case = ("seq", scheme, first table, second table): one lifting object serves the first table and then the second
    (as the one object of an event handler serves event after event): every selection on the second table must be the
    selection of a fresh object -- nothing may survive reset()."""
    _, scheme, first, second = case
    cls = _cls(scheme)
    fails = []
    ratio = n_draws(scheme) == 2
    nexec = 0
    a0 = next(i for i, v in enumerate(first) if v > 0)
    sneg = -sum(v for v in second if v < 0)
    for a, qa in enumerate(second):
        if qa <= 0:
            continue
        grid = [(0.5, (j + 0.5) / (sneg * 2)) for j in range(sneg * 2)] if ratio else \
            [((j + 0.5) / (qa * 2),) for j in range(qa * 2)]
        for ans in grid:
            used = cls()
            try:
                select(used, first, a0, (0.5, 0.5) if ratio else (0.5,))
                k, _ = select(used, second, a, ans)
                k2, _ = select(cls(), second, a, ans)
            except Exception as e:
                fails.append(("exception", "%s tables %r then %r active=%d draws=%r raised %r"
                              % (scheme, first, second, a, ans, e)))
                continue
            nexec += 1
            if k != k2:
                fails.append(("state-dependent", "%s: an object that served table %r before selects unit %r for table "
                              "%r (active %d, draws %r); a fresh object selects %r"
                              % (scheme, first, k, second, a, ans, k2)))
    sig = (scheme, "seq", len(first), len(second), sum(first[i] for i in range(len(first)) if first[i] > 0) <
           sum(v for v in second if v > 0))
    return (sig, nexec), fails


def step_function(lifting, table, a, ratio, n=256):
    """Measure of u-intervals selecting each unit (u = the deciding draw in [0,1)), breakpoints found by bisection."""
    def sel(u):
        return select(lifting, table, a, (0.5, u) if ratio else (u,))[0]
    us = [i / n for i in range(n)] + [ONE_BELOW]
    ks = [sel(u) for u in us]
    measure = {}
    left = 0.0
    for i in range(len(us) - 1):
        if ks[i] != ks[i + 1]:
            lo, hi, klo = us[i], us[i + 1], ks[i]
            pieces = [(lo, klo)]
            # there may be several breakpoints in the interval: recursive bisection
            stack = [(lo, klo, hi, ks[i + 1])]
            cuts = []
            while stack:
                l, kl, h, kh = stack.pop()
                if kl == kh:
                    continue
                if h - l < 1e-15:
                    cuts.append((0.5 * (l + h), kl, kh))
                    continue
                m = 0.5 * (l + h)
                km = sel(m)
                stack.append((m, km, h, kh))
                stack.append((l, kl, m, km))
            cuts.sort()
            for c, kl, kh in cuts:
                measure[kl] = measure.get(kl, 0.0) + (c - left)
                left = c
    measure[ks[-1]] = measure.get(ks[-1], 0.0) + (1.0 - left)
    return measure


def check_float_table(case):
    """case = ("float", scheme, table)"""
    _, scheme, table = case
    cls = _cls(scheme)
    lifting = cls()
    ratio = n_draws(scheme) == 2
    fails = []
    flow = [0.0] * len(table)
    total = sum(v for v in table if v > 0)
    for a, qa in enumerate(table):
        if qa <= 0:
            continue
        try:
            meas = step_function(lifting, table, a, ratio)
        except Exception as e:
            fails.append(("exception", "%s table=%r active=%d raised %r" % (scheme, table, a, e)))
            continue
        for k, p in meas.items():
            if table[k] >= 0 and p > 0:
                fails.append(("selects-nonnegative", "%s table=%r active=%d selects unit %d (derivative %r) on a set "
                              "of draws of measure %.3e" % (scheme, table, a, k, table[k], p)))
            flow[k] += qa * p
    for k, v in enumerate(table):
        want = -v if v < 0 else 0.0
        if abs(flow[k] - want) > 1e-9 * total:
            fails.append(("flow-balance-float", "%s table=%r: flow into unit %d is %.12g, its negative derivative is "
                          "%.12g" % (scheme, table, k, flow[k], want)))
    return (("float", scheme, len(table)), 0), fails


def check_order(case):
    """case = ("ids", scheme, table): the identifiers handed in are returned untouched, whatever their type."""
    _, scheme, table = case
    lifting = _cls(scheme)()
    ids = [("unit", i, (i,)) for i in range(len(table))]
    fails = []
    a = next(i for i, v in enumerate(table) if v > 0)
    k, _ = select(lifting, table, a, (0.5, 0.5) if n_draws(scheme) == 2 else (0.5,), ids)
    if k not in ids:
        fails.append(("identifier", "%s table=%r returned %r which is not one of the inserted identifiers"
                      % (scheme, table, k)))
    return (("ids", scheme), 1), fails


# ---- handler level: the table the real event handlers feed into the lifting ------------------------------------------
def _measure(accept_and_pick, n=128):
    """Measure of the deciding draw u in [0, 1) leading to each new active identifier (step function, bisection)."""
    us = [i / n for i in range(n)] + [ONE_BELOW]
    ks = [accept_and_pick(u) for u in us]
    measure = {}
    left = 0.0
    for i in range(len(us) - 1):
        if ks[i] != ks[i + 1]:
            stack = [(us[i], ks[i], us[i + 1], ks[i + 1])]
            cuts = []
            while stack:
                l, kl, h, kh = stack.pop()
                if kl == kh:
                    continue
                if h - l < 1e-13:
                    cuts.append((0.5 * (l + h), kl))
                    continue
                m = 0.5 * (l + h)
                km = accept_and_pick(m)
                stack.append((m, km, h, kh))
                stack.append((l, kl, m, km))
            for c, kl in sorted(cuts):
                measure[kl] = measure.get(kl, 0.0) + (c - left)
                left = c
    measure[ks[-1]] = measure.get(ks[-1], 0.0) + (1.0 - left)
    return measure


def check_pair_handler(case):
    """case = ("pairhandler", scheme, n leaves, geometry id): TwoCompositeObjectSummedBoundingPotentialEventHandler on two
    molecules: with every unit of positive factor derivative as the active one, the flow into each unit of negative
    derivative must equal its magnitude.  The table is computed independently from the pair derivatives."""
    import jellyfysh.setting as setting
    from .. import handlers as hx
    from ..env import init_setting
    from jellyfysh.potential.inverse_power_potential import InversePowerPotential
    from jellyfysh.event_handler.two_composite_object_summed_bounding_potential_event_handler import \
        TwoCompositeObjectSummedBoundingPotentialEventHandler
    _, scheme, nl, geo = case
    # geometries 3..5 are geometries 0..2 moved to a corner of the box: the two molecules (and the leaves of one
    # molecule) then sit on different sides of the periodic faces, so every pair term of the table needs the nearest
    # image -- for the active leaf *and* for its non-active partners (seed C01-k)
    wrap, geo = geo >= 3, geo % 3
    L = 1.0
    init_setting((L, L, L), cubic=True, roots=2, per_root=nl)
    pot = InversePowerPotential(power=1.0, prefactor=1.0)
    bnd = InversePowerPotential(power=1.0, prefactor=40.0)
    handler = TwoCompositeObjectSummedBoundingPotentialEventHandler(potential=pot, bounding_potential=bnd,
                                                                    lifting=_cls(scheme)(), charge="q")
    shapes = {0: [(0.0, 0.0, 0.0), (0.04, 0.02, -0.03), (-0.03, 0.05, 0.02), (0.02, -0.04, 0.04)],
              1: [(0.0, 0.0, 0.0), (0.05, -0.01, 0.02), (-0.02, -0.03, 0.05), (0.03, 0.03, 0.03)],
              2: [(0.0, 0.0, 0.0), (-0.05, 0.03, 0.01), (0.02, 0.04, -0.04), (0.01, 0.05, 0.02)]}[geo][:nl]
    charges = [[1.0, -1.0], [0.41, -0.82, 0.41], [1.0, -0.5, 0.7, -1.2]][nl - 2]
    offs = [(0.22, 0.05, -0.08), (-0.18, 0.12, 0.1), (0.12, -0.2, 0.15)][geo]
    ca = (0.93, 0.96, 0.05) if wrap else (0.4, 0.4, 0.4)
    pa = [[(ca[d] + sh[d]) % L for d in range(3)] for sh in shapes]
    pb = [[(ca[d] + offs[d] + sh[(d + 1) % 3]) % L for d in range(3)] for sh in shapes]
    direction = geo % 3
    vel = [0.0, 0.0, 0.0]
    vel[direction] = 1.0
    units = [((0, i), pa[i], charges[i]) for i in range(nl)] + [((1, i), pb[i], charges[i]) for i in range(nl)]

    def pair(i, j):
        """rate of energy change of the pair (i, j) when i moves along vel: -dU/ds_d with s = r_j - r_i"""
        s = [(units[j][1][d] - units[i][1][d] + 0.5 * L) % L - 0.5 * L for d in range(3)]  # nearest image
        r = math.sqrt(sum(x * x for x in s))
        return units[i][2] * units[j][2] * s[direction] / r ** 3
    table = {}
    for i, (ident, _, _) in enumerate(units):
        others = [j for j in range(len(units)) if units[j][0][0] != ident[0]]
        table[ident] = sum(pair(i, j) for j in others)
    fails = []
    flow = {k: 0.0 for k in table}
    total = sum(v for v in table.values() if v > 0)
    ratio = scheme.endswith("RatioLifting")
    nexec = 0
    for a, (ident, _, _) in enumerate(units):
        qa = table[ident]
        if qa <= 1e-9 * total:
            continue
        ra = ident[0]
        branches = []
        for r_id, pos in ((0, pa), (1, pb)):
            ch = [{"q": c} for c in charges]
            branches.append(hx.molecule_branch(r_id, pos, ch, ident[1] if r_id == ra else None, vel, (0.0, 0.0), L))
        # the mediator hands the branch of the active unit first
        in_state = branches if ra == 0 else [branches[1], branches[0]]

        def pick(u):
            us = [0.0, 0.5, u] if ratio else [0.0, u]
            _, out, _ = hx.run_event(handler, in_state, 1e-13, us)
            mv = hx.moving_leaves(out)
            return mv[0] if len(mv) == 1 else tuple(mv)
        try:
            meas = _measure(pick)
        except Exception as e:
            fails.append(("exception", "%s %d-atom molecules geometry %d active %r raised %r" % (scheme, nl, geo + 3 * wrap, ident, e)))
            continue
        nexec += 129
        for k, p in meas.items():
            if k == ident:
                fails.append(("not-confirmed", "%s active %r: the event was not confirmed for a set of lifting draws of "
                              "measure %.3g although the confirmation draw is 0" % (scheme, ident, p)))
            elif k not in table or table[k] >= 0 and p > 1e-9:
                fails.append(("selects-nonnegative", "%s %d-atom molecules geometry %d active %r: unit %r with factor "
                              "derivative %r is selected on a set of draws of measure %.3g"
                              % (scheme, nl, geo + 3 * wrap, ident, k, table.get(k), p)))
            else:
                flow[k] += qa * p
    for k, v in table.items():
        want = -v if v < 0 else 0.0
        if abs(flow[k] - want) > 1e-6 * total:
            fails.append(("handler-flow-balance", "%s with two %d-atom molecules (geometry %d, direction %d): factor "
                          "derivatives %r; flow into unit %r is %.9g, its negative derivative is %.9g"
                          % (scheme, nl, geo + 3 * wrap, direction, {str(a): round(b, 6) for a, b in table.items()}, k, flow[k],
                             want)))
            break
    setting.reset()
    return (("pairhandler", scheme, nl, sum(1 for v in table.values() if v > 0)), nexec), fails


def check_bending_handler(case):
    """case = ("bendhandler", scheme, geometry id): FixedSeparationsEventHandlerWithPiecewiseConstantBoundingPotential
    with the bending potential on one three-atom molecule."""
    import jellyfysh.setting as setting
    from .. import handlers as hx
    from ..env import init_setting
    from jellyfysh.potential.bending_potential import BendingPotential
    from jellyfysh.event_handler.fixed_separations_event_handler_with_piecewise_constant_bounding_potential import \
        FixedSeparationsEventHandlerWithPiecewiseConstantBoundingPotential as FS
    _, scheme, geo = case
    L = 10.0
    init_setting((L, L, L), cubic=True, roots=1, per_root=3)
    phi0, kk = 1.9764, 75.9
    pot = BendingPotential(equilibrium_angle=phi0, prefactor=kk)
    handler = FS(potential=pot, lifting=_cls(scheme)(), offset=300.0, max_displacement=0.1, separations=[1, 0, 1, 2])
    geos = [((0.9, 0.3, 0.1), (-0.4, 0.9, 0.2)), ((1.0, 0.0, 0.2), (-0.2, 1.1, -0.3)), ((0.5, 0.8, 0.3), (0.6, -0.7, 0.4))]
    l1, l2 = geos[geo]
    rj = [5.0, 5.0, 5.0]
    pos = [[rj[d] + l1[d] for d in range(3)], rj, [rj[d] + l2[d] for d in range(3)]]
    direction = geo % 3
    vel = [0.0, 0.0, 0.0]
    vel[direction] = 1.0

    def energy(p):
        a = [p[0][d] - p[1][d] for d in range(3)]
        b = [p[2][d] - p[1][d] for d in range(3)]
        c = sum(x * y for x, y in zip(a, b)) / math.sqrt(sum(x * x for x in a)) / math.sqrt(sum(x * x for x in b))
        return 0.5 * kk * (math.acos(c) - phi0) ** 2
    table = {}
    for i in range(3):
        p = [list(x) for x in pos]
        p[i][direction] += 1e-6
        ep = energy(p)
        p[i][direction] -= 2e-6
        table[(0, i)] = (ep - energy(p)) / 2e-6
    total = sum(v for v in table.values() if v > 0)
    ratio = scheme.endswith("RatioLifting")
    fails = []
    flow = {k: 0.0 for k in table}
    nexec = 0
    for i in range(3):
        qa = table[(0, i)]
        if qa <= 1e-6 * total:
            continue
        in_state = [hx.molecule_branch(0, pos, [None, None, None], i, vel, (0.0, 0.0), L)]

        def pick(u):
            us = [0.0, 0.5, u] if ratio else [0.0, u]
            _, out, _ = hx.run_event(handler, in_state, 1e-9, us)
            mv = hx.moving_leaves(out)
            return mv[0] if len(mv) == 1 else tuple(mv)
        try:
            meas = _measure(pick)
        except Exception as e:
            fails.append(("exception", "bending handler %s geometry %d active %d raised %r" % (scheme, geo, i, e)))
            continue
        nexec += 129
        for k, p in meas.items():
            if k == (0, i) or table.get(k, 0.0) >= 0 and p > 1e-9:
                fails.append(("selects-nonnegative", "bending handler %s geometry %d active %d: unit %r (derivative %r) "
                              "selected with measure %.3g" % (scheme, geo, i, k, table.get(k), p)))
            else:
                flow[k] += qa * p
    for k, v in table.items():
        want = -v if v < 0 else 0.0
        if abs(flow[k] - want) > 1e-5 * total:
            fails.append(("handler-flow-balance", "bending handler %s geometry %d: derivatives %r; flow into %r is %.9g, "
                          "its negative derivative %.9g" % (scheme, geo, table, k, flow[k], want)))
            break
    setting.reset()
    return (("bendhandler", scheme, sum(1 for v in table.values() if v > 0)), nexec), fails


DISPATCH = {"seq": check_sequence, "int": check_int_table, "float": check_float_table, "ids": check_order, "pairhandler": check_pair_handler,
            "bendhandler": check_bending_handler}


def check_case(case):
    return DISPATCH[case[0]](case)


FLOAT_TABLES = [
    (1.0, 1e-8, -1.0 - 1e-8), (1e-8, 1.0, -1.0 - 1e-8), (-1.0 - 1e-8, 1.0, 1e-8), (1.0, -1.0 - 1e-8, 1e-8),
    (1e9, 1.0, -1e9 - 1.0), (1e9, 1.0, -1e9, -1.0), (-1.0, 1e9, -1e9, 1.0), (0.3, 0.7, -0.6, -0.4),
    (0.7, -0.4, 0.3, -0.6), (1e-9, 1.0, -0.5, -0.5 - 1e-9), (2.5, -1.25, -1.25), (0.1, 0.2, -0.3),
    (0.1, 0.2, 0.0, -0.3), (1.0, -1e-12, -1.0 + 1e-12), (3.0, 1e-300, -3.0), (1.0, 1.0, 1.0, -3.0),
    (0.25, 0.25, -0.125, -0.125, -0.25),
]


def tables(ctx):
    vals = [-3, -2, -1, 0, 1, 2, 3]
    nmax = 6 if ctx.thorough else 5
    for n in range(2, nmax + 1):
        for tab in itertools.product(vals, repeat=n):
            if sum(tab) == 0 and max(tab) > 0:
                yield tab


def cases(ctx):
    for tab in tables(ctx):
        for s in SCHEMES:
            yield ("int", s, tab)
    small = [t for t in tables(ctx) if len(t) <= 3] + [(1, 2, -1, -2), (3, -1, -1, -1), (1, 1, 1, -3)]
    for s in SCHEMES:
        for t1 in small:
            for t2 in small:
                if t1 != t2:
                    yield ("seq", s, t1, t2)
    for tab in FLOAT_TABLES:
        for s in SCHEMES:
            yield ("float", s, tab)
            yield ("ids", s, tab)
    for s in SCHEMES:
        for nl in (2, 3, 4):
            for geo in (0, 1, 2, 3, 4, 5):
                yield ("pairhandler", s, nl, geo)
        for geo in (0, 1, 2):
            yield ("bendhandler", s, geo)


def run(ctx):
    from ..core import Result
    res = Result()
    sigs_n = {}
    evals = 0
    all_cases = list(cases(ctx))
    n, sigs, fails = par.run_cases(check_case, all_cases, ctx.cores, chunk=40)
    # run_cases collects signatures in a set; the execution count is carried in the signature tuple
    regimes = set()
    for sig, nexec in sigs:
        regimes.add(sig)
    for key, case, msg in fails:
        res.add(key, {"case": enc(case)}, msg)
    # executions: recount deterministically
    for c in all_cases:
        if c[0] == "int":
            tab = c[2]
            sneg = -sum(v for v in tab if v < 0)
            for qa in tab:
                if qa > 0:
                    evals += (sneg * M + 4) if c[1].endswith("RatioLifting") else (qa * M + 2)
        elif c[0] == "float":
            evals += 257 * sum(1 for v in c[2] if v > 0)
        elif c[0] in ("pairhandler", "bendhandler"):
            evals += 129 * 2
        else:
            evals += 1
    res.coverage = {
        "evaluations": evals, "tables": n, "distinct_nontrivial": len(regimes),
        "rule": "all integer tables over {-3..3} with zero sum and a positive entry, sizes 2..%d, every order, every "
                "positive entry active, 3 schemes; draws on the midpoint grid (j+1/2)/(%d q) (exact integer counts) "
                "plus the end points {0, 1-2^-53}; %d float tables with breakpoints located by bisection; the tables "
                "the real two-molecule (2-4 atoms) and bending event handlers feed into each scheme (flow measured "
                "through send_event_time / send_out_state with scripted confirmation and lifting draws). "
                "evaluations = real insert*/get_active_identifier executions; distinct_nontrivial = distinct "
                "(scheme, size, has zero entry, several positive, several negative) regimes"
                % (6 if ctx.thorough else 5, M, len(FLOAT_TABLES)),
        "samples": [enc(("int", SCHEMES[0], (2, 0, -1, -1))), enc(("float", SCHEMES[2], FLOAT_TABLES[0]))],
        "exhaustive": True,
    }
    res.assumptions = ["random.uniform is the only source of randomness of the lifting classes (proved per execution "
                       "by the seam: hidden generator state unchanged)",
                       "uniform(a, b) is scripted as a + (b - a) u for the enumerated u"]
    return res


def replay(ctx, case):
    c = dec(case["case"])
    _, fails = par.guarded(check_case)(c)
    return sorted(set(k for k, _ in fails)) or None
