"""C12 (engine A) -- see jfv/envx.py for the monitor."""
from . import _enva

MON = ("C12",)
def FILTER(spec):
    from .. import specs
    return specs.has_composites(spec)
RULE = ("C12 monitor at every commit: composite-object velocity == weighted sum of its point masses (absent iff none "
        "moves); stored position advanced to the event time == weighted nearest-image barycentre.")


def creator_cases(ctx):
    """Scripted draws for the random node creators: centre components x direction vectors (x separation)."""
    import itertools
    comps = (-0.5, 0.1, 0.5)
    vecs = [v for v in itertools.product(comps, repeat=3)]
    for L in (1.0, 10.0):
        centres = [c for c in itertools.product((0.001 * L, 0.5 * L, 0.999 * L), repeat=3)]
        yield ("dipole", L, centres, vecs, (0.0, 0.5, ONE_BELOW))
        step = 1 if ctx.thorough else 3
        for j, c in enumerate(centres):
            yield ("water", L, [c], vecs[::step], vecs)


ONE_BELOW = 1.0 - 2.0 ** -53


def check_creator(case):
    """The initially generated molecules: root position == weighted nearest-image barycentre of the point masses,
    every position inside the box, no velocity / time stamp."""
    import math
    import jellyfysh.setting as setting
    from ..env import init_setting
    from ..seam import Seam, scripted
    from jellyfysh.base.node import Node
    kind, L, centres, v1s, extra = case
    init_setting((L, L, L), cubic=True, roots=1, per_root=2 if kind == "dipole" else 3)
    if kind == "dipole":
        from jellyfysh.input_output_handler.input_handler.random_node_creator.dipole_random_node_creator import \
            DipoleRandomNodeCreator
        creator = DipoleRandomNodeCreator(min_initial_dipole_separation=0.0, max_initial_dipole_separation=0.3 * L)
    else:
        from jellyfysh.input_output_handler.input_handler.random_node_creator.water_random_node_creator import \
            WaterRandomNodeCreator
        creator = WaterRandomNodeCreator(bond_length=0.1012 * L, bond_angle=1.9764)
    fails = []
    n = 0

    def unit(x, lo, hi):
        return (x - lo) / (hi - lo)
    for c in centres:
        for v1 in v1s:
            others = extra if kind == "dipole" else [v2 for v2 in extra
                                                     if abs(sum(a * b for a, b in zip(v1, v2))) <
                                                     0.999 * math.sqrt(sum(a * a for a in v1) * sum(b * b for b in v2))]
            for o in others:
                # draws: centre (3 uniforms in [0, L]), vector(s) (3 uniforms in [-1, 1] each), separation (dipole)
                ans = [x / L for x in c] + [unit(x, -1.0, 1.0) for x in v1]
                ans += [o] if kind == "dipole" else [unit(x, -1.0, 1.0) for x in o]
                node = Node()
                try:
                    with Seam(scripted(ans)):
                        creator.fill_root_node(node)
                except Exception as e:
                    fails.append(("creator-exception", "%s creator, draws %r: %r" % (kind, ans, e)))
                    continue
                n += 1
                root = node.value.position
                kids = [ch.value.position for ch in node.children]
                w = 1.0 / len(kids)
                bad = None
                for d in range(3):
                    off = sum(w * (((k[d] - root[d]) + L / 2) % L - L / 2) for k in kids)
                    if abs(off) > 1e-9 * L:
                        bad = "root %r is off the nearest-image barycentre of its point masses %r by %.3e in " \
                              "direction %d" % (root, kids, off, d)
                    if not all(0.0 <= k[d] < L for k in kids) or not 0.0 <= root[d] <= L:
                        bad = "position outside the box: root %r, point masses %r" % (root, kids)
                if bad:
                    fails.append(("creator-barycentre", "%s creator L=%r centre %r vectors %r/%r: %s"
                                  % (kind, L, c, v1, o, bad)))
                    if len(fails) > 3:
                        break
    setting.reset()
    return ((kind, L), n), fails


def run(ctx):
    from ..core import Result
    from .. import par
    from ..fl import enc
    res = Result()
    st = _enva.run_monitors(ctx, res, MON, FILTER)
    cc = list(creator_cases(ctx))
    n, sigs, fails = par.run_cases(check_creator, cc, ctx.cores, chunk=2)
    for key, case, msg in fails:
        res.add(key, {"creator_case": enc(case)}, msg)
    res.coverage = _enva.coverage(st, MON, RULE + " Plus the real dipole / water random node creators under scripted "
                                  "draws: all centres {0.001 L, L/2, 0.999 L}^3 x orientation vectors {-0.5, 0.1, 0.5}^3 "
                                  "(x second vector / separation): molecules straddling every periodic face.")
    res.coverage["creator_molecules"] = sum(k for _, k in sigs)
    res.coverage["evaluations"] += res.coverage["creator_molecules"]
    res.assumptions = list(_enva.ASSUMPTIONS)
    return res


def replay(ctx, case):
    if "creator_case" in case:
        from ..fl import dec
        from .. import par
        _, fails = par.guarded(check_creator)(dec(case["creator_case"]))
        return sorted(set(k for k, _ in fails)) or None
    return _enva.replay(ctx, case, MON)
