"""C12 (engine A) -- see jfv/envx.py for the monitor."""
from . import _enva

MON = ("C12",)
def FILTER(spec):
    from .. import specs
    return specs.has_composites(spec)
RULE = ("C12 monitor at every commit: composite-object velocity == weighted sum of its point masses (absent iff none "
        "moves); stored position advanced to the event time == weighted nearest-image barycentre.")


def run(ctx):
    from ..core import Result
    res = Result()
    st = _enva.run_monitors(ctx, res, MON, FILTER)
    res.coverage = _enva.coverage(st, MON, RULE)
    res.assumptions = list(_enva.ASSUMPTIONS)
    return res


def replay(ctx, case):
    return _enva.replay(ctx, case, MON)
