"""C12 (engine A) -- see jfv/envx.py for the monitor."""
from . import _enva

MON = ("C12",)
def FILTER(spec):
    from .. import specs
    return specs.has_composites(spec)
RULE = ("C12 monitor at every commit: composite-object velocity == weighted sum of its point masses (absent iff none "
        "moves); stored position advanced to the event time == weighted nearest-image barycentre.")


def creator_cases(ctx):
    """Scripted draws for the random node creators: centre components x direction vectors (x separation)."""
    import itertools
    comps = (-0.5, 0.1, 0.5)
    vecs = [v for v in itertools.product(comps, repeat=3)]
    for L in (1.0, 10.0):
        centres = [c for c in itertools.product((0.001 * L, 0.5 * L, 0.999 * L), repeat=3)]
        yield ("dipole", L, centres, vecs, (0.0, 0.5, ONE_BELOW))
        step = 1 if ctx.thorough else 3
        for j, c in enumerate(centres):
            yield ("water", L, [c], vecs[::step], vecs)


ONE_BELOW = 1.0 - 2.0 ** -53


def check_creator(case):
    """The initially generated molecules: root position == weighted nearest-image barycentre of the point masses,
    every position inside the box, no velocity / time stamp."""
    import math
    import jellyfysh.setting as setting
    from ..env import init_setting
    from ..seam import Seam, scripted
    from jellyfysh.base.node import Node
    kind, L, centres, v1s, extra = case
    init_setting((L, L, L), cubic=True, roots=1, per_root=2 if kind == "dipole" else 3)
    if kind == "dipole":
        from jellyfysh.input_output_handler.input_handler.random_node_creator.dipole_random_node_creator import \
            DipoleRandomNodeCreator
        creator = DipoleRandomNodeCreator(min_initial_dipole_separation=0.0, max_initial_dipole_separation=0.3 * L)
    else:
        from jellyfysh.input_output_handler.input_handler.random_node_creator.water_random_node_creator import \
            WaterRandomNodeCreator
        creator = WaterRandomNodeCreator(bond_length=0.1012 * L, bond_angle=1.9764)
    fails = []
    n = 0

    def unit(x, lo, hi):
        return (x - lo) / (hi - lo)
    for c in centres:
        for v1 in v1s:
            others = extra if kind == "dipole" else [v2 for v2 in extra
                                                     if abs(sum(a * b for a, b in zip(v1, v2))) <
                                                     0.999 * math.sqrt(sum(a * a for a in v1) * sum(b * b for b in v2))]
            for o in others:
                # draws: centre (3 uniforms in [0, L]), vector(s) (3 uniforms in [-1, 1] each), separation (dipole)
                ans = [x / L for x in c] + [unit(x, -1.0, 1.0) for x in v1]
                ans += [o] if kind == "dipole" else [unit(x, -1.0, 1.0) for x in o]
                node = Node()
                try:
                    with Seam(scripted(ans)):
                        creator.fill_root_node(node)
                except Exception as e:
                    fails.append(("creator-exception", "%s creator, draws %r: %r" % (kind, ans, e)))
                    continue
                n += 1
                root = node.value.position
                kids = [ch.value.position for ch in node.children]
                w = 1.0 / len(kids)
                bad = None
                for d in range(3):
                    off = sum(w * (((k[d] - root[d]) + L / 2) % L - L / 2) for k in kids)
                    if abs(off) > 1e-9 * L:
                        bad = "root %r is off the nearest-image barycentre of its point masses %r by %.3e in " \
                              "direction %d" % (root, kids, off, d)
                    if not all(0.0 <= k[d] < L for k in kids) or not 0.0 <= root[d] <= L:
                        bad = "position outside the box: root %r, point masses %r" % (root, kids)
                if bad:
                    fails.append(("creator-barycentre", "%s creator L=%r centre %r vectors %r/%r: %s"
                                  % (kind, L, c, v1, o, bad)))
                    if len(fails) > 3:
                        break
    setting.reset()
    return ((kind, L), n), fails


def check_switcher(case):
    """case = ("switch", n leaves, first new active leaf): the molecule <-> atom mode switches on composite objects
    with n point masses (the shipped configuration only switches dipoles): start-of-run on a leaf, switch to the whole
    molecule, switch back to one atom (every choice of the atom), committed through the real TreeStateHandler; after
    every commit the stored root velocity must be the weighted sum of the leaf velocities (absent iff none moves) and
    the root position advanced to the event time the barycentre."""
    import jellyfysh.setting as setting
    from ..env import init_setting
    from ..seam import Seam
    from jellyfysh.base.node import Node
    from jellyfysh.base.particle import Particle
    from jellyfysh.base.time import Time
    from jellyfysh.state_handler.tree_state_handler import TreeStateHandler
    from jellyfysh.state_handler.physical_state.tree_physical_state import TreePhysicalState
    from jellyfysh.state_handler.lifting_state.tree_lifting_state import TreeLiftingState
    from jellyfysh.event_handler.root_leaf_unit_active_switcher import RootLeafUnitActiveSwitcher
    _, nl, pick, speed = case
    L = 10.0
    init_setting((L, L, L), cubic=True, roots=2, per_root=nl)
    fails = []
    shape = [(0.0, 0.0, 0.0), (0.9, 0.3, 0.1), (-0.4, 0.8, 0.2), (0.2, -0.5, 0.7)][:nl]
    roots = []
    for r, c in enumerate(([9.7, 5.0, 5.0], [3.0, 3.0, 3.0])):  # the first molecule straddles the periodic face
        pts = [[(c[d] + sh[d]) for d in range(3)] for sh in shape]
        bary = [sum(p[d] for p in pts) / nl % L for d in range(3)]
        n = Node(Particle(bary))
        for p in pts:
            n.add_child(Node(Particle([x % L for x in p])))
        roots.append(n)
    sh = TreeStateHandler(TreePhysicalState(), TreeLiftingState())
    sh.initialize(roots)
    to_root = RootLeafUnitActiveSwitcher(chain_length=0.37, aim_mode="root_unit_active")
    to_leaf = RootLeafUnitActiveSwitcher(chain_length=0.41, aim_mode="leaf_unit_active")
    # start: leaf (0, 1 % nl) moves along x
    b = sh.extract_from_global_state((0,))
    a0 = 1 % nl
    v = [speed, 0.0, 0.0]
    b.children[a0].value.velocity, b.children[a0].value.time_stamp = list(v), Time(0.0, 0.25)
    b.value.velocity, b.value.time_stamp = [x / nl for x in v], Time(0.0, 0.25)
    sh.insert_into_global_state([b])

    def verify(where, t):
        g = {}

        def rec(c):
            u = c.value
            g[u.identifier] = (list(u.position), None if u.velocity is None else list(u.velocity),
                               None if u.time_stamp is None else u.time_stamp.quotient + u.time_stamp.remainder)
            for ch in c.children:
                rec(ch)
        for r in sh.extract_global_state():
            rec(r)
        for r in range(2):
            pr, vr, tr = g[(r,)]
            lv = [g[(r, k)] for k in range(nl)]
            vs = [sum((l[1][d] if l[1] is not None else 0.0) / nl for l in lv) for d in range(3)]
            if vr is None:
                if any(l[1] is not None for l in lv):
                    fails.append(("switch-velocity-absent", "%d-atom molecule %d after %s: point masses move but the "
                                  "root has no velocity" % (nl, r, where)))
                prt = pr
            else:
                if all(l[1] is None for l in lv):
                    fails.append(("switch-velocity-present", "%d-atom molecule %d after %s: root velocity %r but no "
                                  "point mass moves" % (nl, r, where, vr)))
                if any(abs(vr[d] - vs[d]) > 1e-10 for d in range(3)):
                    fails.append(("switch-velocity", "%d-atom molecule %d after %s: root velocity %r, weighted sum of "
                                  "the point masses %r" % (nl, r, where, vr, vs)))
                prt = [pr[d] + vr[d] * (t - tr) for d in range(3)]
            off = [0.0, 0.0, 0.0]
            for (pl, vl, tl) in lv:
                if vl is not None:
                    pl = [pl[d] + vl[d] * (t - tl) for d in range(3)]
                for d in range(3):
                    off[d] += (((pl[d] - prt[d]) + L / 2) % L - L / 2) / nl
            if any(abs(x) > 1e-9 * L for x in off):
                fails.append(("switch-barycentre", "%d-atom molecule %d after %s: root is off the barycentre by %r"
                              % (nl, r, where, off)))
    verify("start", 0.25)

    class Pol:
        def __call__(self, kind, args, index):
            if kind == "choice":
                return pick % args[0]
            raise HarnessError("switcher drew random.%s" % kind)
    from ..core import HarnessError
    with Seam(Pol()):
        for rounds in range(2):
            for name, handler in (("leaf->root switch", to_root), ("root->leaf switch", to_leaf)):
                if fails:
                    break  # the state is already inconsistent: what follows is not meaningful
                active = sh.extract_active_global_state()
                if len(active) != 1:
                    fails.append(("switch-active-state", "%d-atom molecules before the %s: the active global state "
                                  "has %d independent branches, expected 1" % (nl, name, len(active))))
                    break
                t = handler.send_event_time([copy_branch(active[0])])
                # the mediator hands the branch of the root of the active unit
                root_id = active[0].value.identifier[:1]
                out = handler.send_out_state([sh.extract_from_global_state(root_id)])
                sh.insert_into_global_state(out)
                verify(name, t.quotient + t.remainder)
    setting.reset()
    return (("switch", nl), 5), fails


def copy_branch(b):
    import copy
    return copy.deepcopy(b)


def run(ctx):
    from ..core import Result
    from .. import par
    from ..fl import enc
    res = Result()
    st = _enva.run_monitors(ctx, res, MON, FILTER)
    sw = [("switch", nl, pick, speed) for nl in (2, 3, 4) for pick in range(nl) for speed in (1.0, 0.7)]
    nsw, sigsw, failsw = par.run_cases(check_switcher, sw, ctx.cores, chunk=2)
    for key, case, msg in failsw:
        res.add(key, {"switch_case": enc(case)}, msg)
    cc = list(creator_cases(ctx))
    n, sigs, fails = par.run_cases(check_creator, cc, ctx.cores, chunk=2)
    for key, case, msg in fails:
        res.add(key, {"creator_case": enc(case)}, msg)
    res.coverage = _enva.coverage(st, MON, RULE + " Plus the real dipole / water random node creators under scripted "
                                  "draws: all centres {0.001 L, L/2, 0.999 L}^3 x orientation vectors {-0.5, 0.1, 0.5}^3 "
                                  "(x second vector / separation): molecules straddling every periodic face; and the molecule <-> atom mode "
                                  "switches driven on molecules of 2, 3 and 4 point masses through the real state handler.")
    res.coverage["creator_molecules"] = sum(k for _, k in sigs)
    res.coverage["mode_switch_sequences"] = nsw
    res.coverage["evaluations"] += res.coverage["creator_molecules"]
    res.assumptions = list(_enva.ASSUMPTIONS)
    return res


def replay(ctx, case):
    if "switch_case" in case:
        from ..fl import dec
        from .. import par
        _, fails = par.guarded(check_switcher)(dec(case["switch_case"]))
        return sorted(set(k for k, _ in fails)) or None
    if "creator_case" in case:
        from ..fl import dec
        from .. import par
        _, fails = par.guarded(check_creator)(dec(case["creator_case"]))
        return sorted(set(k for k, _ in fails)) or None
    return _enva.replay(ctx, case, MON)
