"""C10 -- cell-based and file-based factor decompositions cover each partner exactly once.

(a) Engine B/C on real CuboidPeriodicCells + SingleActiveCellOccupancy + the four real cell taggers (+ the look-up the
    mediator performs for a cell-veto target cell): every placement of 2..4 units on cell-critical positions, every
    neighbour-layer count and occupant cap, with and without charge filter, for point masses and for composite objects
    (cell level 1 and 2), and every *sequence* of up to 3 changes of the active unit (the occupancy is updated
    incrementally, so the partition must also hold in states that are not freshly initialised):
        {occupants of non-nearby cells (cell veto / cell bounding)} (+) {nearby pair in-states} (+) {surplus pair
        in-states}  ==  all relevant units except the active one, each exactly once.
(b) Engine C on the real FactorTypeMaps + FactorTypeMapInStateTagger: every factor file built from <= 3 lines of
    {intra-object pair, inter-object pair, intra-object triple, all units} over objects of 2..3 point masses, index
    lists in every order: for every active point mass the generated in-states equal "lines containing its index, once
    per other composite object for inter-object lines, once for intra-object lines", computed from the file text.
"""
import collections
import contextlib
import io
import itertools
import os
import tempfile

from .. import par
from ..env import init_setting
from ..fl import dec, enc
from ..core import HarnessError

LABEL = "single_active_cell_occupancy"


def _stub_estimator(potential):
    from jellyfysh.estimator import Estimator

    class StubEstimator(Estimator):
        def derivative_bound(self, lower_corner, upper_corner, direction, calculate_lower_bound=False):
            return (1.0, -1.0) if calculate_lower_bound else (1.0,)

        def charge_correction_factor(self, a, b=None):
            return 1.0
    return StubEstimator(potential=potential)


def build(case):
    """case = ("cells", Ls, counts, layers, cap, kind, positions, charges)
    kind: "atoms" (1 level), "atoms+filter", "objects" (2 levels, cell level 1), "leaves+filter" (2 levels, level 2)"""
    from jellyfysh.base.node import Node
    from jellyfysh.base.particle import Particle
    from jellyfysh.activator.internal_state.cell_occupancy.cells.cuboid_periodic_cells import CuboidPeriodicCells
    from jellyfysh.activator.internal_state.single_active_cell_occupancy import SingleActiveCellOccupancy
    from jellyfysh.activator.tagger.cell_bounding_potential_tagger import CellBoundingPotentialTagger
    from jellyfysh.activator.tagger.excluded_cells_tagger import ExcludedCellsTagger
    from jellyfysh.activator.tagger.surplus_cells_tagger import SurplusCellsTagger
    from jellyfysh.activator.tagger.cell_veto_tagger import CellVetoTagger
    from jellyfysh.state_handler.tree_state_handler import TreeStateHandler
    from jellyfysh.state_handler.physical_state.tree_physical_state import TreePhysicalState
    from jellyfysh.state_handler.lifting_state.tree_lifting_state import TreeLiftingState
    from jellyfysh.event_handler.two_leaf_unit_event_handler import TwoLeafUnitEventHandler
    from jellyfysh.event_handler.leaf_unit_cell_veto_event_handler import LeafUnitCellVetoEventHandler
    from jellyfysh.event_handler.two_leaf_unit_cell_bounding_potential_event_handler import \
        TwoLeafUnitCellBoundingPotentialEventHandler
    from jellyfysh.potential.inverse_power_potential import InversePowerPotential
    _, Ls, counts, layers, cap, kind, positions, charges = case
    composite = kind in ("objects", "leaves+filter")
    n = len(positions)
    init_setting(Ls, roots=n, per_root=2 if composite else 1)
    dim = len(Ls)
    cells = CuboidPeriodicCells(list(counts), neighbor_layers=layers)
    level = 2 if kind == "leaves+filter" else 1
    filt = "c" if "filter" in kind else None
    occ = SingleActiveCellOccupancy(cells, cell_level=level, maximum_number_occupants=cap, charge=filt)
    roots = []
    for i, p in enumerate(positions):
        if composite:
            r = Node(Particle(list(p)))
            off = [0.0] * dim
            off[0] = 0.01
            r.add_child(Node(Particle([(p[d] + off[d]) % Ls[d] for d in range(dim)], {"c": charges[i]})))
            r.add_child(Node(Particle([(p[d] - off[d]) % Ls[d] for d in range(dim)], {"c": 0.0})))
            roots.append(r)
        else:
            roots.append(Node(Particle(list(p), {"c": charges[i]})))
    sh = TreeStateHandler(TreePhysicalState(), TreeLiftingState())
    sh.initialize(roots)
    occ.initialize(sh.extract_global_state())
    pot = InversePowerPotential(power=1.0, prefactor=1.0)
    pair = TwoLeafUnitEventHandler(potential=pot)
    taggers = {}
    with contextlib.redirect_stdout(io.StringIO()):
        taggers["excluded"] = ExcludedCellsTagger([], [], pair, number_event_handlers=1, internal_state_label=LABEL)
        taggers["surplus"] = SurplusCellsTagger([], [], pair, number_event_handlers=1, internal_state_label=LABEL)
        if not composite:
            veto = LeafUnitCellVetoEventHandler(estimator=_stub_estimator(pot))
            taggers["veto"] = CellVetoTagger([], [], veto, internal_state_label=LABEL)
            from jellyfysh.potential.cell_bounding_potential import CellBoundingPotential
            cb = TwoLeafUnitCellBoundingPotentialEventHandler(
                potential=pot, bounding_potential=CellBoundingPotential(estimator=_stub_estimator(pot)))
            taggers["bounding"] = CellBoundingPotentialTagger([], [], cb, number_event_handlers=1,
                                                              internal_state_label=LABEL)
        for t in taggers.values():
            t.initialize_with_internal_states([occ])
            t.initialize()
    return cells, occ, sh, taggers, level, filt


def check_cells(case):
    from jellyfysh.base.time import Time
    _, Ls, counts, layers, cap, kind, positions, charges = case
    fails = []
    try:
        cells, occ, sh, taggers, level, filt = build(case)
    except Exception as e:
        raise HarnessError("cannot build the static cell configuration %r: %r" % (case, e))
    n = len(positions)
    dim = len(Ls)
    composite = kind in ("objects", "leaves+filter")
    if level == 1:
        units = [(i,) for i in range(n)]
    else:
        units = [(i, 0) for i in range(n)]  # the charged leaf of each object can be active
    relevant = [u for u in units if (filt is None or charges[u[0]] != 0.0)]
    if level == 2:
        all_relevant = list(relevant)  # leaves (i, 1) have charge 0 -> filtered
    else:
        all_relevant = list(relevant)
    candidates = [u for u in units if u in relevant]
    sequences = [s for k in (1, 2, 3) for s in itertools.permutations(candidates, k)] if len(candidates) <= 4 else \
        [s for k in (1, 2) for s in itertools.permutations(candidates, k)]
    nchecked = 0
    for seq in sequences:
        try:
            cells, occ, sh, taggers, level, filt = build(case)
            prev = None
            for a in seq:
                if prev is not None:
                    b = sh.extract_from_global_state(prev[:1])
                    _set_motion(b, prev, None, dim)
                    sh.insert_into_global_state([b])
                b = sh.extract_from_global_state(a[:1])
                _set_motion(b, a, Time(0.0, 0.0), dim)
                sh.insert_into_global_state([b])
                prev = a
                active = sh.extract_active_global_state()
                occ.update(active)
                msg = partition_violation(cells, occ, taggers, active, a, all_relevant, level)
                nchecked += 1
                if msg:
                    fails.append((msg[0], "grid L=%r cells=%r layers=%d cap=%d %s positions=%r charges=%r, active "
                                  "sequence %r: %s" % (Ls, counts, layers, cap, kind, positions, charges, seq, msg[1])))
                    break
        except Exception as e:
            import traceback
            tb = traceback.extract_tb(e.__traceback__)
            where = next((fr for fr in reversed(tb) if "/jellyfysh/" in fr.filename), tb[-1])
            fails.append(("exception", "grid L=%r cells=%r layers=%d cap=%d %s positions=%r active sequence %r: %r at "
                          "%s:%d" % (Ls, counts, layers, cap, kind, positions, seq, e,
                                     where.filename.split("/jellyfysh/")[-1], where.lineno)))
        if len(fails) >= 3:
            break
    import jellyfysh.setting as setting
    setting.reset()
    sig = (kind, len(counts), layers, cap, n, len(set(positions)) < n, nchecked)
    return sig, fails


def _set_motion(branch, ident, stamp, dim):
    from jellyfysh.base.time import Time
    vel = None if stamp is None else [1.0] + [0.0] * (dim - 1)
    if len(ident) == 1:
        # a whole unit (or composite object) moves
        branch.value.velocity = None if vel is None else list(vel)
        branch.value.time_stamp = None if stamp is None else Time(0.0, 0.0)
        for ch in branch.children:
            ch.value.velocity = None if vel is None else list(vel)
            ch.value.time_stamp = None if stamp is None else Time(0.0, 0.0)
    else:
        leaf = branch.children[ident[1]]
        leaf.value.velocity = None if vel is None else list(vel)
        leaf.value.time_stamp = None if stamp is None else Time(0.0, 0.0)
        branch.value.velocity = None if vel is None else [v / 2 for v in vel]
        branch.value.time_stamp = None if stamp is None else Time(0.0, 0.0)


def partition_violation(cells, occ, taggers, active, a, all_relevant, level):
    act = list(occ.yield_active_cells())
    if len(act) != 1 or act[0][1] != a:
        return ("active-record", "occupancy records active units %r, expected %r" % ([x[1] for x in act], a))
    acell = act[0][0]
    expect = collections.Counter(u for u in all_relevant if u != a)
    near = collections.Counter()
    for ids in taggers["excluded"].yield_identifiers_send_event_time(active):
        if ids[0] != a:
            return ("in-state-active", "excluded-cells in-state %r does not start with the active unit" % (ids,))
        near[ids[1]] += 1
    for ids in taggers["surplus"].yield_identifiers_send_event_time(active):
        if ids[0] != a:
            return ("in-state-active", "surplus in-state %r does not start with the active unit" % (ids,))
        near[ids[1]] += 1
    far = collections.Counter()
    for cell in cells.yield_cells():
        if cell not in cells.nearby_cells(acell):
            for ident in occ[cell]:  # what Mediator.get_arguments_cell_veto_event_handler fetches for a target cell
                far[ident] += 1
    covered = near + far
    if covered != expect:
        missing = sorted((expect - covered).elements())
        twice = sorted((covered - expect).elements())
        return ("partition", "missed targets %r, targets treated twice / wrongly %r" % (missing, twice))
    if "veto" in taggers:
        vt = list(taggers["veto"].yield_identifiers_send_event_time(active))
        if vt != [(a,)]:
            return ("veto-in-state", "cell-veto tagger yields %r" % (vt,))
        # the target cells the real cell-veto handler can propose (every row of its alias table; the stub estimator
        # gives equal rates, so every row is one offset) must be exactly the non-nearby cells, each once
        msg = veto_targets_violation(cells, taggers["veto"], active, acell)
        if msg:
            return msg
    if "bounding" in taggers:
        bt = collections.Counter()
        for ids in taggers["bounding"].yield_identifiers_send_event_time(active):
            if ids[0] != a:
                return ("in-state-active", "cell-bounding in-state %r does not start with the active unit" % (ids,))
            for t in ids[1:]:
                bt[t] += 1
        if bt != far:
            return ("partition-bounding", "cell-bounding in-states cover %r, occupants of non-nearby cells are %r"
                    % (sorted(bt.elements()), sorted(far.elements())))
    return None


def veto_targets_violation(cells, tagger, active, acell):
    import copy
    from ..seam import Seam
    handler = tagger.get_event_handlers()[0]
    want = collections.Counter(c.identifier for c in cells.yield_cells() if c not in cells.nearby_cells(acell))
    got = collections.Counter()

    class Pol:
        row = 0

        def __call__(self, kind, args, index):
            if kind == "choice":
                self.n = args[0]
                return self.row % args[0]
            if kind == "uniform":
                return args[0]
            if kind == "expovariate":
                return 1.0
            raise HarnessError("cell-veto handler drew random.%s" % kind)
    pol = Pol()
    nrows = sum(want.values())
    with Seam(pol):
        for row in range(max(nrows, 1)):
            pol.row = row
            with contextlib.redirect_stdout(io.StringIO()):
                t, targets = handler.send_event_time(copy.deepcopy(active))
            if row == 0 and getattr(pol, "n", nrows) != nrows:
                return ("veto-offsets", "the cell-veto handler's alias table has %d rows, there are %d non-nearby cells"
                        % (pol.n, nrows))
            for c in targets:
                got[c.identifier] += 1
    if got != want:
        return ("veto-targets", "active cell %r: the cell-veto handler can propose target cells %r; the non-nearby "
                "cells are %r (missing %r, twice %r)" % (acell.identifier, sorted(got.elements()), sorted(want.elements()),
                                                         sorted((want - got).elements()), sorted((got - want).elements())))
    return None


# ----------------------------------------------------------------------------------------------------------------------
def check_factor_file(case):
    """case = ("file", N, lines) with lines = [(indices, label)]"""
    from jellyfysh.base.node import Node
    from jellyfysh.base.unit import Unit
    from jellyfysh.base.time import Time
    from jellyfysh.activator.tagger.factor_type_maps import FactorTypeMaps
    from jellyfysh.activator.tagger.factor_type_map_in_state_tagger import FactorTypeMapInStateTagger
    from jellyfysh.event_handler.two_leaf_unit_event_handler import TwoLeafUnitEventHandler
    from jellyfysh.potential.inverse_power_potential import InversePowerPotential
    import jellyfysh.setting as setting
    _, N, lines = case
    R = 3
    fails = []
    init_setting((1.0, 1.0, 1.0), roots=R, per_root=N, levels=2)
    fd, path = tempfile.mkstemp(prefix="jfv_factors_", suffix=".txt")
    try:
        with os.fdopen(fd, "w") as f:
            f.write("# generated by the C10 check\n")
            for idx, label in lines:
                f.write("[%s], %s\n" % (", ".join(str(i) for i in idx), label))
        FactorTypeMaps._instance = None
        try:
            maps = FactorTypeMaps(path)
            handler = TwoLeafUnitEventHandler(potential=InversePowerPotential(power=1.0, prefactor=1.0))
            labels = sorted(set(l for _, l in lines))
            taggers = {l: FactorTypeMapInStateTagger([], [], handler, 1, maps, tag="t_" + l.lower(),
                                                     factor_type_maps_label=_snake(l)) for l in labels}
            for t in taggers.values():
                t.initialize_with_internal_states([])
                t.initialize()
        except Exception as e:
            return None, [("file-exception", "factor file %r (N=%d) could not be loaded: %r" % (lines, N, e))]
        for r in range(R):
            for i in range(N):
                root = Node(Unit((r,), [0.5, 0.5, 0.5], velocity=[0.5, 0.0, 0.0], time_stamp=Time(0.0, 0.0)), weight=1)
                for k in range(N):
                    root.add_child(Node(Unit((r, k), [0.5, 0.5, 0.5],
                                             velocity=[1.0, 0.0, 0.0] if k == i else None,
                                             time_stamp=Time(0.0, 0.0) if k == i else None), weight=1.0 / N))
                # the active state handed to taggers is the branch of the independently moving leaf
                branch = Node(root.value, weight=1)
                branch.add_child(root.children[i])
                for label in labels:
                    want = collections.Counter()
                    for idx, l in lines:
                        if l != label or i not in idx:
                            continue
                        if all(j < N for j in idx):
                            want[tuple((r, j) for j in idx)] += 1
                        else:
                            for o in range(R):
                                if o != r:
                                    want[tuple((r, j) if j < N else (o, j - N) for j in idx)] += 1
                    try:
                        got = collections.Counter(tuple(tuple(x) for x in t) for t in
                                                  taggers[label].yield_identifiers_send_event_time([branch]))
                    except Exception as e:
                        fails.append(("tagger-exception", "file %r N=%d active (%d,%d) label %s: %r"
                                      % (lines, N, r, i, label, e)))
                        continue
                    # the tagger de-duplicates with a set: compare as sets, and insist on no lost in-state
                    if set(got) != set(want):
                        fails.append(("factor-in-states", "file %r (N=%d), active point mass (%d, %d), factor %s: "
                                      "in-states %r, the file demands %r" % (lines, N, r, i, label, sorted(got),
                                                                             sorted(want))))
                if len(fails) > 3:
                    break
    finally:
        os.unlink(path)
        FactorTypeMaps._instance = None
        setting.reset()
    kinds = tuple(sorted(set((len(idx), all(j < N for j in idx), list(idx) == sorted(idx)) for idx, _ in lines)))
    return ("file", N, kinds), fails


def _snake(label):
    out = ""
    for ch in label:
        if ch.isupper() and out:
            out += "_"
        out += ch.lower()
    return out


def factor_files(ctx):
    for N in (2, 3):
        intra = [list(p) for k in (2,) for c in itertools.combinations(range(N), k) for p in itertools.permutations(c)]
        inter = [list(p) for i in range(N) for j in range(N) for p in itertools.permutations([i, N + j])]
        triple = [list(p) for p in itertools.permutations(range(N))] if N == 3 else []
        allu = [list(range(2 * N)), list(reversed(range(2 * N))), [N + j for j in range(N)] + list(range(N))]
        pool = [(x, "Harmonic") for x in intra] + [(x, "Coulomb") for x in inter] + \
               [(x, "Bending") for x in triple] + [(x, "Allunits") for x in allu]
        # single lines, and pairs/triples of lines with distinct kinds (symmetric inter-object pairs included)
        for ln in pool:
            yield ("file", N, [ln])
        sym = []
        for i in range(N):
            for j in range(N):
                if i < j:
                    sym.append([([i, N + j], "LennardJones"), ([j, N + i], "LennardJones")])
                    sym.append([([N + j, i], "LennardJones"), ([N + i, j], "LennardJones")])
                elif i == j:
                    sym.append([([i, N + i], "LennardJones")])
                    sym.append([([N + i, i], "LennardJones")])
        for s in sym:
            yield ("file", N, s)
        limit = None if ctx.thorough else 400
        combos = itertools.combinations(pool, 2)
        for k, c in enumerate(combos):
            if limit is not None and k % max(1, (len(pool) * (len(pool) - 1) // 2) // limit) != 0:
                continue
            if len(set(l for _, l in c)) == len(c) or True:
                yield ("file", N, list(c))
        if ctx.thorough:
            for k, c in enumerate(itertools.combinations(pool, 3)):
                if k % 7 == 0:
                    yield ("file", N, list(c))


def cell_cases(ctx):
    t = ctx.thorough
    grids = [((1.0, 1.0), (4, 5)), ((1.0, 1.0), (3, 3)), ((1.0, 1.0, 1.0), (3, 5, 7))]
    if t:
        grids += [((2.0, 1.0), (5, 5)), ((1.0, 1.0, 1.0), (3, 3, 3)), ((1.0, 1.0), (6, 4))]
    # "tight" grids: fewer cells per side than 2 * layers + 1 in the first direction, so that the neighbour layers
    # reached through the positive and through the negative offsets overlap (the same cell is nearby twice over);
    # the code accepts such grids, and every partner must still be treated exactly once (seed C10-k)
    tight = {((1.0, 1.0), (4, 8)): [2], ((1.0, 1.0), (2, 5)): [1]}
    if t:
        tight[((1.0, 1.0, 1.0), (4, 7, 3))] = [1, 2]
    for Ls, counts in grids + list(tight):
        dim = len(Ls)
        side = [Ls[d] / counts[d] for d in range(dim)]
        # critical positions: cell centre, on a cell face, a cell corner, across the periodic face, far away
        def P(*frac):
            return tuple((frac[d] if d < len(frac) else 0.5) * side[d] % Ls[d] for d in range(dim))
        pts = [P(0.5, 0.5), P(0.5, 0.6), P(1.0, 0.5), P(1.0, 1.0), P(counts[0] - 0.01, 0.5), P(0.0, 0.0),
               P(2.5, 2.5), P(1.5, 0.5)]
        if t:
            pts += [P(0.999999999, 0.5), P(2.0, 3.0), P(counts[0] - 0.5, counts[1] - 0.5)]
        layer_opts = tight.get((Ls, counts)) or [l for l in (0, 1, 2) if all(2 * l + 1 < c for c in counts)] or [0]
        for layers in layer_opts:
            for cap in (1, 2, -1):
                for kind in ("atoms", "atoms+filter", "objects", "leaves+filter"):
                    sizes = (2, 3, 4) if (kind == "atoms" and dim == 2) else (2, 3)
                    if not t and dim == 3:
                        sizes = (3,)
                    for k in sizes:
                        combos = list(itertools.combinations_with_replacement(pts, k))
                        step = 1 if (t or len(combos) <= 150) else max(1, len(combos) // 150)
                        for pos in combos[::step]:
                            charges = tuple(0.0 if ("filter" in kind and i == 1) else 1.0 for i in range(k))
                            yield ("cells", Ls, counts, layers, cap, kind, tuple(pos), charges)


def check_veto_family(case):
    """case = ("veto", kind, Ls, counts, layers): the far family as the real cell-veto handlers realise it -- the target
    cell is the cell of the *cell-level unit* (the composite object, not its active point mass) translated by the
    sampled offset, for every active cell, direction and alias-table row (evaluator shared with C18; composite objects
    are placed so that the active point mass lies in another cell than its object)."""
    from .c18 import check_cell_veto
    (sig, n), fails = check_cell_veto(case)
    return ("veto-family",) + tuple(map(str, sig)) + (n,), [("veto-" + k, m) for k, m in fails]


def check_case(case):
    if case[0] == "veto":
        return check_veto_family(case)
    return check_cells(case) if case[0] == "cells" else check_factor_file(case)


def run(ctx):
    from ..core import Result
    res = Result()
    cc = list(cell_cases(ctx))
    ff = list(factor_files(ctx))
    n1, sigs1, fails1 = par.run_cases(check_case, cc, ctx.cores, chunk=20)
    n2, sigs2, fails2 = par.run_cases(check_case, ff, ctx.cores, chunk=40)
    vv = [("veto", "composite", (1.0, 2.0), (5, 4), 1), ("veto", "leaf", (1.0, 1.0), (4, 5), 1)]
    if ctx.thorough:
        vv += [("veto", "composite", (1.0, 1.0, 1.0), (3, 5, 7), 1)]
    n3, sigs3, fails3 = par.run_cases(check_case, vv, ctx.cores, chunk=1)
    fails2 = fails2 + fails3
    for key, case, msg in fails1 + fails2:
        res.add(key, {"case": enc(case)}, msg)
    partitions = sum(s[-1] for s in sigs1 if s)
    veto_exec = sum(s[-1] for s in sigs3 if s)
    res.coverage = {
        "evaluations": n1 + n2, "cell_configurations": n1, "factor_files": n2,
        "partition_checks": partitions, "cell_veto_handler_executions": veto_exec,
        "distinct_nontrivial": len(set(s[:-1] for s in sigs1 if s)) + len(sigs2),
        "rule": "(a) grids x neighbour layers {0,1,2} x occupant cap {1,2,unbounded} x {atoms, atoms+charge filter, "
                "composite objects at cell level 1, charged leaves at cell level 2} x placements of 2-4 units on "
                "cell-critical positions (centre, face, corner, periodic face, coincident units; subsampled "
                "deterministically to <= 150 placements per setting in quick) x every sequence of <= 3 distinct active "
                "units, partition checked after every change of the active unit; (b) factor files from <= 2 (3) lines "
                "in every index order x every active point mass of 3 objects; (c) the real cell-veto handlers (leaf and "
                "composite-object level) for every active cell x direction x alias row: target = cell of the cell-level "
                "unit + offset. distinct_nontrivial = distinct (kind, "
                "dimension, layers, cap, units, coincident) settings + distinct file shapes",
        "samples": [enc(cc[0]), enc(ff[0]), enc(ff[-1])],
        "exhaustive": bool(ctx.thorough),
    }
    # (d) the partition of the *pending* events inside explored runs of every configuration with a cell system
    from . import _enva
    from .. import specs as specmod
    st = _enva.run_monitors(ctx, res, ("C10",), spec_filter=specmod.has_cells, prefixes=("C10:",), resume_legs=(),
                            quick_baselines=[ctx.seed % 4])
    res.coverage["evaluations"] += st["executions"]
    res.coverage["run_level"] = {"executions": st["executions"], "configurations": len(st["per_spec"]),
                                 "partitions_checked": st.get("c10_partitions", 0),
                                 "cell_systems_without_far_family_skipped": st.get("c10_skipped_cell_systems", 0),
                                 "distinct_outcomes": len(st["outcomes"])}
    res.coverage["rule"] += ("; (d) engine A on the %d configurations with a cell system: at every leg the pending "
                             "nearby + surplus + far events cover every other recorded unit exactly once"
                             % len(st["per_spec"]))
    res.assumptions = ["estimators are replaced by a constant stub (the taggers and the occupancy never look at bounds)",
                       "composite objects are dipoles with one charged and one neutral point mass"]
    return res


def replay(ctx, case):
    if "spec" in case:
        from . import _enva
        return _enva.replay(ctx, case, ("C10",))
    c = dec(case["case"])
    c = _detuple(c)
    _, fails = par.guarded(check_case)(c)
    return sorted(set(k for k, _ in fails)) or None


def _detuple(c):
    if c[0] == "file":
        return ("file", c[1], [(list(idx), label) for idx, label in c[2]])
    return c
