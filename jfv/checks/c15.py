"""C15 -- periodic wrapping and minimum-image separations are exact modular arithmetic.

Engine C: every box length of a lattice x every critical position (and every ordered pair of positions), on the real
HypercubicPeriodicBoundaries and HypercuboidPeriodicBoundaries, oracle in fractions.Fraction.
"""
import math
from fractions import Fraction

from .. import par
from ..fl import F, around, dec, enc, uniq

INF = math.inf


def lengths(ctx):
    # 49.0 and 107.0: lengths whose rounded reciprocal gives L * (1/L) < 1 (breaks multiply-by-inverse shortcuts)
    ls = [1.0, 0.3, 12.836, 10.0, 2.0 ** -3, 1000.0, 49.0, 107.0, 8.0, 18.6]
    if ctx.thorough:
        ls += [0.1, 0.7, 3.0, 7.3, 2.5, 1e-3, 31.4159, 6.0]
    return ls


def positions(L, ctx):
    k = 3 if ctx.thorough else 2
    ps = []
    for c in (0.0, L, -L, 2 * L, -2 * L, 0.5 * L, 1.5 * L, -0.5 * L, 7 * L, -7 * L):
        ps += around(c, k)
    ps += [-k * 2.0 ** -56 * L for k in range(1, 9)] + [-2.3e-16, -3e-16, -1e-15, -1e-16, -4e-16 * L]
    ps += [-5e-324, 5e-324, -1e-17, 1e-17, -0.0, -1e-300, -2.0 ** -60 * L, -2.0 ** -54 * L, -2.0 ** -53 * L,
           0.25 * L, 0.75 * L, L / 3.0, -L / 3.0, 1e6 * L, -1e6 * L, 1e6 * L + 0.3 * L, -(2.0 ** 40) * L,
           123456.789 * L, 0.1 * L, 0.9 * L]
    if ctx.thorough:
        ps += [x * L for x in (0.01, 0.2, 0.3, 0.4, 0.6, 0.7, 0.8, 0.99, -0.01, -0.25, -0.75, -0.99, 1.01, 1.25, 3.3)]
        ps += [-1e-16 * L, -1e-15 * L, -3e-17 * L, 1e9 * L + 0.5, -1e15 * L]
    return uniq(ps)


def box_positions(L, ctx):
    """positions used for pairs (separation vectors): mostly inside the box, plus a few outside."""
    k = 2
    ps = around(0.0, k) + around(L, k) + around(0.5 * L, k) + around(0.25 * L, 1) + around(0.75 * L, 1)
    ps = [p for p in ps if True]
    ps += [0.1 * L, 0.9 * L, L / 3.0, 2 * L / 3.0, 1e-17, -1e-17, -0.25 * L, 1.5 * L, 5 * L + 0.3 * L, -1e6 * L]
    if ctx.thorough:
        ps += [x * L for x in (0.05, 0.2, 0.35, 0.45, 0.55, 0.65, 0.8, 0.95)]
    return uniq(ps)


def _settings(L, dim):
    """(name, boundaries object) for the cubic and the cuboid implementation at equal lengths."""
    import jellyfysh.setting as setting
    from jellyfysh.setting import hypercubic_setting, hypercuboid_setting
    out = []
    setting.reset()
    hypercubic_setting.HypercubicSetting(beta=1.0, dimension=dim, system_length=L)
    out.append(("cubic", setting.periodic_boundaries))
    return out


def circle_dist(a, b, L):
    d = (a - b) % L
    return min(d, L - d)


def check_positions(case):
    """case = ("pos", impl, L, dim, [x...])"""
    import jellyfysh.setting as setting
    from jellyfysh.setting import hypercubic_setting, hypercuboid_setting
    _, impl, L, dim, xs = case
    setting.reset()
    if impl == "cubic":
        hypercubic_setting.HypercubicSetting(beta=1.0, dimension=dim, system_length=L)
    else:
        hypercuboid_setting.HypercuboidSetting(beta=1.0, dimension=dim, system_lengths=[L] * dim)
    pb = setting.periodic_boundaries
    FL = F(L)
    fails, sigs = [], set()
    for x in xs:
        for index in range(dim):
            try:
                r = pb.correct_position_entry(x, index)
            except Exception as e:  # totality
                fails.append(("position-exception", "%s L=%r correct_position_entry(%r) raised %r" % (impl, L, x, e)))
                continue
            if not (isinstance(r, float) and 0.0 <= r < L):
                fails.append(("position-range", "%s L=%r: correct_position_entry(%r) = %r is not in [0, L)"
                              % (impl, L, x, r)))
            else:
                dist = circle_dist(F(r), F(x), FL)
                if dist > F(math.ulp(L)):
                    fails.append(("position-congruent", "%s L=%r: correct_position_entry(%r) = %r is %.3e away "
                                  "from the congruent point" % (impl, L, x, r, float(dist))))
            try:
                r2 = pb.correct_position_entry(r, index)
                if r2 != r or math.copysign(1.0, r2) != math.copysign(1.0, r) and r != 0.0:
                    fails.append(("position-idempotent", "%s L=%r: f(%r) = %r but f(f(x)) = %r"
                                  % (impl, L, x, r, r2)))
            except Exception as e:
                fails.append(("position-exception", "%s L=%r correct_position_entry(%r) raised %r" % (impl, L, r, e)))
            n = pb.next_image(x, index)
            if n != x + L:
                fails.append(("next-image", "%s L=%r: next_image(%r) = %r != x + L" % (impl, L, x, n)))
        # vector form agrees with the entry form
        vec = [x] * dim
        pb.correct_position(vec)
        if any(v != pb.correct_position_entry(x, i) for i, v in enumerate(vec)):
            fails.append(("position-vector", "%s L=%r: correct_position([%r]*%d) = %r differs from the entry form"
                          % (impl, L, x, dim, vec)))
        sigs.add((impl, x < 0, x >= L, abs(x) < 1e-15 * L, abs(x) > 1e5 * L))
    setting.reset()
    return frozenset(sigs), fails


def check_pairs(case):
    """case = ("sep", L, dim, a, [b...]): separation_vector(a, b) for cubic and cuboid, all b."""
    import jellyfysh.setting as setting
    from jellyfysh.setting import hypercubic_setting, hypercuboid_setting
    _, L, dim, a, bs = case
    FL = F(L)
    fails, sigs = [], set()
    results = {}
    for impl in ("cubic", "cuboid"):
        setting.reset()
        if impl == "cubic":
            hypercubic_setting.HypercubicSetting(beta=1.0, dimension=dim, system_length=L)
        else:
            hypercuboid_setting.HypercuboidSetting(beta=1.0, dimension=dim, system_lengths=[L] * dim)
        pb = setting.periodic_boundaries
        for b in bs:
            ref = [a] + [0.25 * L] * (dim - 1)
            tgt = [b] + [0.75 * L] * (dim - 1)
            try:
                sv = pb.separation_vector(ref, tgt)
            except Exception as e:
                fails.append(("separation-exception", "%s L=%r separation_vector(%r, %r) raised %r"
                              % (impl, L, ref, tgt, e)))
                continue
            results[(impl, b)] = sv
            for i, s in enumerate(sv):
                d = F(tgt[i]) - F(ref[i])
                if not (isinstance(s, float) and abs(s) <= L / 2.0):
                    fails.append(("separation-range", "%s L=%r: separation_vector(%r, %r)[%d] = %r exceeds L/2"
                                  % (impl, L, ref, tgt, i, s)))
                    continue
                tol = 2 * F(math.ulp(abs(tgt[i] - ref[i]) + L))
                dist = circle_dist(F(s), d, FL)
                if dist > tol:
                    fails.append(("separation-congruent", "%s L=%r: separation_vector(%r, %r)[%d] = %r is %.3e "
                                  "away from a point congruent to the difference (tolerance %.3e)"
                                  % (impl, L, ref, tgt, i, s, float(dist), float(tol))))
                # entry form and in-place form agree with the vector form
                e = pb.correct_separation_entry(tgt[i] - ref[i], i)
                if e != s:
                    fails.append(("separation-entry", "%s L=%r: correct_separation_entry(%r) = %r but the vector form "
                                  "gave %r" % (impl, L, tgt[i] - ref[i], e, s)))
            raw = [tgt[i] - ref[i] for i in range(dim)]
            pb.correct_separation(raw)
            if raw != sv:
                fails.append(("separation-inplace", "%s L=%r: correct_separation gives %r, separation_vector %r"
                              % (impl, L, raw, sv)))
            dd = b - a
            sigs.add((dd < -L / 2, dd > L / 2, abs(dd) == L / 2, abs(dd) > 2 * L, dim))
    for b in bs:
        if ("cubic", b) in results and ("cuboid", b) in results and results[("cubic", b)] != results[("cuboid", b)]:
            fails.append(("cubic-vs-cuboid", "L=%r: separation_vector(%r, %r): cubic %r, cuboid %r"
                          % (L, a, b, results[("cubic", b)], results[("cuboid", b)])))
    setting.reset()
    return frozenset(sigs), fails


def check_cuboid_mixed(case):
    """case = ("mixed", [L0, L1, L2], [x...]): unequal lengths: every direction uses its own length."""
    import jellyfysh.setting as setting
    from jellyfysh.setting import hypercuboid_setting
    _, Ls, xs = case
    dim = len(Ls)
    setting.reset()
    hypercuboid_setting.HypercuboidSetting(beta=1.0, dimension=dim, system_lengths=list(Ls))
    pb = setting.periodic_boundaries
    fails = []
    for x in xs:
        for i, L in enumerate(Ls):
            r = pb.correct_position_entry(x * L, i)
            if not (0.0 <= r < L) or circle_dist(F(r), F(x * L), F(L)) > F(math.ulp(L)):
                fails.append(("position-mixed", "cuboid %r: correct_position_entry(%r, %d) = %r" % (Ls, x * L, i, r)))
            s = pb.correct_separation_entry(x * L, i)
            if abs(s) > L / 2.0 or circle_dist(F(s), F(x * L), F(L)) > 2 * F(math.ulp(abs(x * L) + L)):
                fails.append(("separation-mixed", "cuboid %r: correct_separation_entry(%r, %d) = %r"
                              % (Ls, x * L, i, s)))
            if pb.next_image(x * L, i) != x * L + L:
                fails.append(("next-image", "cuboid %r: next_image(%r, %d)" % (Ls, x * L, i)))
    setting.reset()
    return ("mixed", dim), fails


def check_reinit(case):
    """case = ("reinit", impl A, LA, impl B, LB, dim, [x...]): one process sets up box A, uses it, resets the setting and
    sets up box B (unit tests and scripts do this all the time): the results in box B must be those of box B -- nothing
    computed for box A may survive.  Self-contained, so it replays in a fresh process."""
    import jellyfysh.setting as setting
    from jellyfysh.setting import hypercubic_setting, hypercuboid_setting
    _, ia, LA, ib, LB, dim, xs = case

    def build(impl, L):
        setting.reset()
        if impl == "cubic":
            hypercubic_setting.HypercubicSetting(beta=1.0, dimension=dim, system_length=L)
        else:
            hypercuboid_setting.HypercuboidSetting(beta=1.0, dimension=dim, system_lengths=[L] * dim)
        return setting.periodic_boundaries
    fails = []
    pa = build(ia, LA)
    for x in xs:
        for i in range(dim):
            pa.correct_position_entry(x, i)
            pa.correct_separation_entry(x, i)
        pa.separation_vector([x] * dim, [0.25 * LA] * dim)
    pb = build(ib, LB)
    FL = F(LB)
    for x in xs:
        for i in range(dim):
            r = pb.correct_position_entry(x, i)
            if not (0.0 <= r < LB) or circle_dist(F(r), F(x), FL) > F(math.ulp(LB)):
                fails.append(("position-after-reinit", "%s box L=%r set up after a %s box L=%r: correct_position_entry(%r, "
                              "%d) = %r" % (ib, LB, ia, LA, x, i, r)))
            s_ = pb.correct_separation_entry(x, i)
            if abs(s_) > LB / 2.0 or circle_dist(F(s_), F(x), FL) > 2 * F(math.ulp(abs(x) + LB)):
                fails.append(("separation-after-reinit", "%s box L=%r set up after a %s box L=%r: "
                              "correct_separation_entry(%r, %d) = %r" % (ib, LB, ia, LA, x, i, s_)))
        v = pb.separation_vector([x] * dim, [0.25 * LB] * dim)
        for i in range(dim):
            if abs(v[i]) > LB / 2.0 or circle_dist(F(v[i]), F(0.25 * LB) - F(x), FL) > 2 * F(math.ulp(abs(x) + LB)):
                fails.append(("separation-after-reinit", "%s box L=%r set up after a %s box L=%r: separation_vector("
                              "[%r..], [%r..]) = %r" % (ib, LB, ia, LA, x, 0.25 * LB, v)))
                break
    setting.reset()
    return ("reinit", ia, ib, LA < LB), fails


DISPATCH = {"reinit": check_reinit, "pos": check_positions, "sep": check_pairs, "mixed": check_cuboid_mixed}


def check_case(case):
    return DISPATCH[case[0]](case)


def cases(ctx):
    for L in lengths(ctx):
        ps = positions(L, ctx)
        for impl in ("cubic", "cuboid"):
            for dim in (1, 2, 3):
                yield ("pos", impl, L, dim, ps)
        bp = box_positions(L, ctx)
        for a in bp:
            for dim in ((1, 3) if not ctx.thorough else (1, 2, 3)):
                yield ("sep", L, dim, a, bp)
    rx = [-12.9, -1.75, -0.35, -1e-17, 0.0, 0.2, 0.29, 0.31, 0.75, 1.0, 1.25, 9.99, 10.5, 12.836, 13.0, 1e6 + 0.25]
    for LA, LB in ((1.0, 0.3), (0.3, 1.0), (12.836, 10.0), (10.0, 12.836), (1.0, 1.0)):
        for ia in ("cubic", "cuboid"):
            for ib in ("cubic", "cuboid"):
                for dim in (1, 3):
                    yield ("reinit", ia, LA, ib, LB, dim, rx)
    xs = [-1.75, -1.0, -0.5, -0.25, -1e-17, 0.0, 0.25, 0.5, 0.75, 1.0, 1.25, 3.5, 1e6 + 0.25]
    for Ls in ([1.0, 2.0, 3.0], [0.3, 12.836], [7.3, 0.1, 10.0], [2.0, 1.0]):
        yield ("mixed", Ls, xs)


def run(ctx):
    from ..core import Result
    res = Result()
    all_cases = list(cases(ctx))
    n, sigs, fails = par.run_cases(check_case, all_cases, ctx.cores, chunk=8)
    for key, case, msg in fails:
        # shrink the replay case to the failing element where the message names it
        res.add(key, {"case": enc(case)}, msg)
    evals = 0
    for c in all_cases:
        if c[0] == "pos":
            evals += len(c[4]) * c[3]
        elif c[0] == "sep":
            evals += 2 * len(c[4]) * c[2]
        elif c[0] == "reinit":
            evals += 3 * len(c[6]) * c[5]
        else:
            evals += len(c[1]) * len(c[2])
    flat = set()
    for s in sigs:
        flat |= set(s) if isinstance(s, frozenset) else {s}
    res.coverage = {
        "evaluations": evals, "case_bundles": n, "distinct_nontrivial": len(flat),
        "rule": "box lengths %r x positions {k*L +- 0..%d ulp for k in -7..7, +-5e-324, +-1e-17, -0.0, -2^-53 L, "
                "fractions of L, +-1e6 L, -2^40 L} x dimensions 1-3 x {cubic, cuboid}; all ordered pairs of %d-%d "
                "box positions for separation vectors (cubic and cuboid compared bit for bit); cuboid with unequal "
                "lengths. Oracle: exact modular arithmetic in fractions.Fraction. distinct_nontrivial = distinct input "
                "regimes (sign, beyond the box, tiny, far away, across +-L/2, ...)"
                % (lengths(ctx), 3 if ctx.thorough else 2, len(box_positions(1.0, ctx)), len(box_positions(1.0, ctx))),
        "samples": [enc(("pos", "cubic", 1.0, 1, [-1e-17, -5e-324, 1.0, 0.9999999999999999])),
                    enc(("sep", 12.836, 3, 0.0, [6.418, 12.835999999999999]))],
        "exhaustive": True,
    }
    res.assumptions = ["IEEE-754 binary64; Python float % semantics of this interpreter",
                       "congruence tolerance: 1 ulp(L) for positions, 2 ulp(|difference| + L) for separations "
                       "(number of roundings in the computation)"]
    return res


def replay(ctx, case):
    c = tuple(dec(case["case"]))
    _, fails = par.guarded(check_case)(c)
    return sorted(set(k for k, _ in fails)) or None
