"""C14 -- Time keeps full resolution and order.

Engine C (finite lattice of critical floats, exact rational oracle) plus engine B (BFS over *sequences* of additions
starting from every lattice time, so that non-initial states -- times that are themselves results of additions -- are
covered and the accumulated error is checked against "one rounding per step").
"""
import itertools
import math
from fractions import Fraction

from .. import par
from ..fl import F, around, dec, down, enc, uniq, up

INF = math.inf


def _time_cls():
    from jellyfysh.base.time import Time
    return Time


def lattice(ctx):
    big = ctx.thorough
    Q = [0.0, 1.0, 2.0, 3.0, 2.0 ** 10, 2.0 ** 31, 2.0 ** 31 + 1.0, 2.0 ** 52 - 1.0, 2.0 ** 52]
    if big:
        Q += [7.0, 2.0 ** 20 + 5.0, 2.0 ** 32 - 1.0, 2.0 ** 32, 2.0 ** 45 + 3.0, 2.0 ** 51 + 1.0, 2.0 ** 52 - 2.0]
    R = [0.0, 5e-324, 2.0 ** -1022, 2.0 ** -60, 2.0 ** -53, 2.0 ** -52, 1e-9, 0.1, 0.25, 1.0 / 3.0]
    R += around(0.5, 2 if big else 1) + [0.75, 0.9, 1.0 - 2.0 ** -52, 1.0 - 2.0 ** -53]
    if big:
        R += [0.3, 0.7, 0.999, 1e-300, 2.0 ** -30, 1.0 - 2.0 ** -30, 0.6180339887498949]
    D = [0.0, 5e-324, 2.0 ** -1022, 2.0 ** -60, 2.0 ** -54, 2.0 ** -53, 2.0 ** -52, 1e-17, 1e-9, 0.1, 0.25, 0.5,
         0.75, 1.0 - 2.0 ** -53, 1.0, 1.0 + 2.0 ** -52, 1.5, 2.0 - 2.0 ** -52, 2.0, 3.7, 1000.1, 2.0 ** 20 + 0.3,
         2.0 ** 40 - 2.0 ** -13, 2.0 ** 40, INF]
    if big:
        D += [1e-300, 2.0 ** -30, 0.3, 0.9, 7.25, 12345.678, 2.0 ** 30 + 0.123, 2.0 ** 39 + 0.5, 1.0 / 3.0,
              2.0 ** 40 - 1.0, 65536.000001]
    return uniq(Q), uniq(R), uniq(D)


def displacements_for(r, D, big):
    """The fixed displacement list plus those that make r + dt land on / next to an integer."""
    extra = []
    for n in (1.0, 2.0, 3.0) + ((1024.0, 2.0 ** 40) if big else (1024.0,)):
        base = n - r
        if base >= 0:
            extra += [x for x in around(base, 2 if big else 1) if x >= 0.0]
    return uniq(D + extra)


# ----------------------------------------------------------------------------------------------------------------------
def val(q, r):
    return F(q) + F(r)


def normalised(t):
    q, r = t.quotient, t.remainder
    return isinstance(q, float) and isinstance(r, float) and q.is_integer() and 0.0 <= r < 1.0


def check_add(case):
    """case = ("add", q, r, [d...]) -- all displacements for one time (needed for monotonicity)."""
    Time = _time_cls()
    _, q, r, ds = case
    fails = []
    sigs = set()
    t0 = Time(q, r)
    prev = None
    for d in sorted(ds):
        t = t0 + d
        if math.isinf(d):
            if not (t == Time(INF, INF) and t.quotient == INF and t.remainder == INF):
                fails.append(("add-inf", "Time(%r,%r) + inf = %r, expected the infinite time" % (q, r, t)))
            continue
        if not normalised(t):
            fails.append(("add-normalised", "Time(%r,%r) + %r = %r is not normalised" % (q, r, d, t)))
            continue
        exact = val(q, r) + F(d)
        got = val(t.quotient, t.remainder)
        bound = F(math.ulp(r + d))
        if abs(got - exact) > bound:
            fails.append(("add-exact", "Time(%r,%r) + %r = %r: error %.3e exceeds one ulp of the remainder sum %.3e"
                          % (q, r, d, t, float(abs(got - exact)), float(bound))))
        if got < val(q, r):
            fails.append(("add-decreases", "Time(%r,%r) + %r = %r decreases the time" % (q, r, d, t)))
        if prev is not None and got < prev[1]:
            fails.append(("add-monotone", "Time(%r,%r): + %r gives %r but the smaller + %r gave a larger time"
                          % (q, r, d, t, prev[0])))
        prev = (d, got)
        inexact = F(r + d) != F(r) + F(d)
        sigs.add((inexact, t.quotient != q, d >= 1.0, q >= 2.0 ** 31))
    return frozenset(sigs), fails


OPS = ["__eq__", "__ne__", "__lt__", "__le__", "__gt__", "__ge__"]


def check_cmp(case):
    """case = ("cmp", (q1, r1), [(q2, r2), ...])"""
    Time = _time_cls()
    _, (q1, r1), others = case
    a = Time(q1, r1)
    va = val(q1, r1) if not math.isinf(q1) else None
    fails = []
    for q2, r2 in others:
        b = Time(q2, r2)
        vb = val(q2, r2) if not math.isinf(q2) else None
        if va is None and vb is None:
            order = 0
        elif va is None:
            order = 1
        elif vb is None:
            order = -1
        else:
            order = (va > vb) - (va < vb)
        want = {"__eq__": order == 0, "__ne__": order != 0, "__lt__": order < 0, "__le__": order <= 0,
                "__gt__": order > 0, "__ge__": order >= 0}
        for op in OPS:
            got = getattr(a, op)(b)
            if bool(got) != want[op]:
                fails.append(("cmp-" + op.strip("_"), "Time(%r,%r).%s(Time(%r,%r)) = %r, rational order says %r"
                              % (q1, r1, op, q2, r2, got, want[op])))
        if va is not None and vb is not None:
            got = a - b
            exact = va - vb
            tol = 4 * F(math.ulp(max(1.0, abs(float(exact)))))
            if not isinstance(got, float) or got != got or abs(F(got) - exact) > tol:
                fails.append(("sub", "Time(%r,%r) - Time(%r,%r) = %r, exact %r, tolerance %.3e"
                              % (q1, r1, q2, r2, got, float(exact), float(tol))))
    return ("cmp", q1 == 0.0, r1 == 0.0), fails


def check_from_float(case):
    Time = _time_cls()
    _, x = case
    t = Time.from_float(x)
    fails = []
    if math.isinf(x):
        if not (t.quotient == INF and t == Time(INF, INF)):
            fails.append(("from-float-inf", "from_float(inf) = %r" % (t,)))
        return None, fails
    if not normalised(t):
        fails.append(("from-float-normalised", "from_float(%r) = %r not normalised" % (x, t)))
    elif val(t.quotient, t.remainder) != F(x):
        fails.append(("from-float-exact", "from_float(%r) = %r is not exact" % (x, t)))
    return ("ff", x >= 1.0, x >= 2.0 ** 31), fails


def check_chain(case):
    """case = ("chain", q, r, [d1, d2, ...]): a history of additions from a lattice time; after every step the time is
    normalised, never decreased, and the accumulated error is at most one ulp(remainder sum) per step."""
    Time = _time_cls()
    _, q, r, ds = case
    t = Time(q, r)
    exact = val(q, r)
    budget = F(0)
    fails = []
    for i, d in enumerate(ds):
        before = val(t.quotient, t.remainder)
        budget += F(math.ulp(t.remainder + d))
        t = t + d
        exact += F(d)
        if not normalised(t):
            fails.append(("chain-normalised", "after %r from Time(%r,%r): %r" % (ds[:i + 1], q, r, t)))
            break
        now = val(t.quotient, t.remainder)
        if now < before:
            fails.append(("chain-decreases", "step %d of %r from Time(%r,%r) decreased the time" % (i, ds, q, r)))
        if abs(now - exact) > budget:
            fails.append(("chain-exact", "after %r from Time(%r,%r): error %.3e > %.3e (one rounding per step)"
                          % (ds[:i + 1], q, r, float(abs(now - exact)), float(budget))))
    return ("chain", t.quotient != q), fails


def _order(a, b):
    va = None if math.isinf(a[0]) else val(*a)
    vb = None if math.isinf(b[0]) else val(*b)
    if va is None or vb is None:
        return (va is None) - (vb is None)
    return (va > vb) - (va < vb)


def check_heap(case):
    """case = ("heap", a, [b...]): the C heap orders times exactly as quotient-then-remainder (heap.c duplicates the
    comparison of Time): push a then b -> the earlier one is returned; with a third, earliest entry that is returned and
    trashed first, the sift-down comparison is exercised as well.  The list scheduler (pure Time comparisons) must agree."""
    from jellyfysh.base.time import Time
    from jellyfysh.scheduler.heap_scheduler.heap_scheduler import HeapScheduler
    from jellyfysh.scheduler.list_scheduler import ListScheduler
    _, a, others = case
    fails = []
    for b in others:
        o = _order(a, b)
        for cls in (HeapScheduler, ListScheduler):
            for with_first in (False, True):
                s = cls()
                try:
                    if with_first:
                        s.push_event(Time(-1.0, 0.5), "first")
                    s.push_event(Time(*a), "A")
                    s.push_event(Time(*b), "B")
                    if with_first:
                        got = s.get_succeeding_event()
                        if got != "first":
                            fails.append(("heap-order", "%s: pushed Time(-1,0.5), %r, %r: first returned %r"
                                          % (cls.__name__, a, b, got)))
                        s.trash_event("first")
                    got = s.get_succeeding_event()
                except Exception as e:
                    fails.append(("heap-exception", "%s: push %r, %r then get raised %r" % (cls.__name__, a, b, e)))
                    continue
                want = {"A"} if o < 0 else {"B"} if o > 0 else {"A", "B"}
                if got not in want:
                    fails.append(("heap-order", "%s%s: pushed A at Time%r then B at Time%r: returned %r, the earlier "
                                  "one is %r" % (cls.__name__, " (after trashing an earlier root)" if with_first else "",
                                                 a, b, got, sorted(want))))
    return ("heap", a[0] >= 2.0 ** 31), fails


def check_heap_layout(case):
    """case = ("hlay", times, perm, stale): a heap whose C array is the heap-ordered arrangement perm of the given
    (distinct, sorted) times; the slots in stale are trashed entries of one handler X whose deletion counter then
    overflows (2^32): X's next push goes through delete_events.  All live events must afterwards be delivered in the
    exact (quotient, remainder) order, by the heap and by the list scheduler."""
    from jellyfysh.base.time import Time
    from jellyfysh.scheduler.heap_scheduler.heap_scheduler import HeapScheduler
    from jellyfysh.scheduler.list_scheduler import ListScheduler
    _, times, perm, stale, newt = case
    fails = []
    for cls in (HeapScheduler, ListScheduler):
        s = cls()
        live = {}
        try:
            for j, rank in enumerate(perm):
                t = times[rank]
                if j in stale:
                    s.push_event(Time(*t), "X")
                    s.trash_event("X")
                else:
                    s.push_event(Time(*t), "h%d" % j)
                    live["h%d" % j] = t
            if cls is HeapScheduler:
                s._minimal_valid_counter["X"] = 2 ** 32
            s.push_event(Time(*newt), "X")
            live["X"] = newt
            got = []
            while live:
                h = s.get_succeeding_event()
                got.append(h)
                if h not in live:
                    break
                s.trash_event(h)
                del live[h]
        except Exception as e:
            fails.append(("heap-exception", "%s: layout %r stale %r: %r" % (cls.__name__, perm, stale, e)))
            continue
        all_live = {("h%d" % j): times[rank] for j, rank in enumerate(perm) if j not in stale}
        all_live["X"] = newt
        gv = [val(*all_live[h]) if h in all_live else None for h in got]
        if None in gv or len(got) != len(all_live) or any(gv[i] > gv[i + 1] for i in range(len(gv) - 1)):
            fails.append(("heap-order", "%s: heap array %r (times %r), stale slots %r of X, X pushes Time%r after its "
                          "counter overflowed: delivered %r, not the exact time order"
                          % (cls.__name__, perm, times, stale, newt, got)))
    return ("hlay", times[0][0] >= 2.0 ** 31), fails


def heap_labelings(n, k):
    """All arrays of length n over the levels 0..k-1 that are (weakly) heap-ordered: every order type a heap of n
    entries with at most k distinct times can have."""
    out = []
    a = [0] * n

    def rec(j):
        if j == n:
            out.append(tuple(a))
            return
        for v in range(a[(j - 1) // 2] if j else 0, k):
            a[j] = v
            rec(j + 1)
    rec(0)
    return out


def check_heap_layout_multi(case):
    """case = ("hlayN", times, labeling, slots, new times): check_heap_layout for every slot x new time."""
    _, times, perm, slots, newts = case
    fails = []
    sig = None
    for slot in slots:
        for newt in newts:
            sig, f = check_heap_layout(("hlay", times, perm, (slot,), newt))
            fails += f
        if fails:
            break
    return ("hlayN", len(perm), sig[1]), fails


def check_update(case):
    """case = ("upd", a, b, [c...]): an instance advanced in place with update() (as the event handlers do with the
    time stamps of units) must behave exactly like a fresh instance with the new value."""
    Time = _time_cls()
    _, a, b, others = case
    fails = []
    t = Time(*a)
    t.update(Time(*b))
    fresh = Time(*b)
    if (t.quotient, t.remainder) != (fresh.quotient, fresh.remainder):
        fails.append(("update-value", "Time%r.update(Time%r) holds (%r, %r)" % (a, b, t.quotient, t.remainder)))
    for c in others:
        o = Time(*c)
        for op in OPS:
            for left, right, desc in ((t, o, "updated %s other"), (o, t, "other %s updated")):
                want = getattr(fresh if left is t else o, op)(o if left is t else fresh)
                got = getattr(left, op)(right)
                if bool(got) != bool(want):
                    fails.append(("update-cmp", "t = Time%r; t.update(Time%r); (%s) with Time%r and %s gives %r, a fresh "
                                  "Time%r gives %r" % (a, b, desc % op, c, op, got, b, want)))
        if not math.isinf(b[0]) and not math.isinf(c[0]):
            if (t - o) != (fresh - o) or (o - t) != (o - fresh):
                fails.append(("update-sub", "after update the difference to Time%r differs from a fresh instance" % (c,)))
    if not math.isinf(b[0]):
        s1, s2 = t + 0.75, fresh + 0.75
        if (s1.quotient, s1.remainder) != (s2.quotient, s2.remainder):
            fails.append(("update-add", "after update, + 0.75 gives %r, a fresh instance %r" % (s1, s2)))
    # the list scheduler orders instances that were updated in place
    from jellyfysh.scheduler.list_scheduler import ListScheduler
    for c in others[:6]:
        if math.isinf(c[0]) or math.isinf(b[0]):
            continue
        sch = ListScheduler()
        sch.push_event(t, "U")
        sch.push_event(Time(*c), "C")
        o = _order(b, c)
        got = sch.get_succeeding_event()
        want = {"U"} if o < 0 else {"C"} if o > 0 else {"U", "C"}
        if got not in want:
            fails.append(("update-cmp", "ListScheduler with an updated Time%r (now %r) and Time%r returned %r"
                          % (a, b, c, got)))
    return ("upd", a[0] >= 2.0 ** 31), fails


DISPATCH = {"hlayN": check_heap_layout_multi, "hlay": check_heap_layout, "upd": check_update, "heap": check_heap, "add": check_add, "cmp": check_cmp, "ff": check_from_float, "chain": check_chain}


def heap_orders(n):
    return [p for p in itertools.permutations(range(n)) if all(p[(j - 1) // 2] < p[j] for j in range(1, n))]


def check_case(case):
    return DISPATCH[case[0]](case)


def cases(ctx):
    Q, R, D = lattice(ctx)
    big = ctx.thorough
    for q in Q:
        for r in R:
            yield ("add", q, r, displacements_for(r, D, big))
    times = [(q, r) for q in Q for r in R] + [(INF, INF)]
    for a in times:
        yield ("cmp", a, times)
    finite = [t for t in times if not math.isinf(t[0])]
    for a in finite:
        yield ("heap", a, finite)
    # heap layouts at early and late times (all heap-ordered arrays of 6 / 7 entries, every stale slot)
    for base in ([0.0, 2.0 ** 31, 2.0 ** 40, 2.0 ** 52 - 2.0] if big else [0.0, 2.0 ** 40]):
        ladder = [(base, 0.0), (base, 2.0 ** -53), (base, 0.25), (base, up(0.25)), (base, 1.0 - 2.0 ** -53),
                  (base + 1.0, 0.0), (base + 1.0, 2.0 ** -53)]
        for n in ((5, 6, 7) if big else (6,)):
            times = ladder[:n]
            for perm in heap_orders(n):
                for slot in range(n):
                    for newt in (times[2], (base + 1.0, 0.5)):
                        yield ("hlay", times, perm, (slot,), newt)
    # deeper heaps: every weakly heap-ordered array of 15 entries (4 levels) over 3 neighbouring time values, every
    # stale slot: a hole filled from another subtree has to rise more than one level
    for base in ([0.0, 2.0 ** 40] if big else [2.0 ** 40]):
        three = [(base, 0.25), (base, up(0.25)), (base + 1.0, 0.0)]
        for lab in heap_labelings(15, 3):
            if lab[-1] == lab[0]:
                continue  # the last entry is not smaller than anything: nothing can be out of order
            yield ("hlayN", three, lab, tuple(range(15)) if big else tuple(range(3, 15)), ((base + 1.0, 0.5),))
    sub = [(0.0, 0.25), (0.0, 0.5), (1.0, 0.25), (1.0, down(0.5)), (1.0, 0.5), (2.0, 0.0), (2.0 ** 31, 0.5),
           (2.0 ** 52, 0.25), (INF, INF)]
    for a in sub:
        for b in sub:
            yield ("upd", a, b, sub)
    for x in uniq([q + r for q in Q for r in R] + D + [2.0 ** 53, 2.0 ** 60 + 2.0 ** 9, 1e300]):
        yield ("ff", x)
    # histories of additions (BFS over sequences; alphabet simplest first)
    alpha = [2.0 ** -53, 0.25, 1.0 - 2.0 ** -53, 0.5, 1e-9, 1.0, 3.7] + ([2.0 ** 40, 5e-324, 1000.1] if big else [])
    depth = 4 if big else 3
    starts = [(q, r) for q in (Q if big else [0.0, 2.0 ** 31, 2.0 ** 52 - 1.0]) for r in
              (0.0, 0.5, 1.0 - 2.0 ** -53, 1.0 / 3.0)]
    for q, r in starts:
        for n in range(2, depth + 1):
            for ds in itertools.product(alpha, repeat=n):
                yield ("chain", q, r, list(ds))


def run(ctx):
    from ..core import Result
    res = Result()
    res.level = "exploration"
    n, sigs, fails = par.run_cases(check_case, cases(ctx), ctx.cores, chunk=400)
    for key, case, msg in fails:
        res.add(key, {"case": enc(case)}, msg)
    Q, R, D = lattice(ctx)
    # count elementary evaluations, not case bundles
    adds = sum(len(displacements_for(r, D, ctx.thorough)) for r in R) * len(Q)
    ntimes = len(Q) * len(R) + 1
    flat = set()
    for s in sigs:
        if isinstance(s, frozenset):
            flat |= {("add",) + x for x in s}
        else:
            flat.add(s)
    res.coverage = {
        "evaluations": adds + ntimes * ntimes * 7 + (ntimes - 1) ** 2 * 4 + (n - 2 * len(Q) * len(R) - ntimes),
        "case_bundles": n,
        "distinct_nontrivial": len(flat),
        "rule": "every (quotient, remainder, displacement) of a critical-value lattice (powers of two up to 2^52, "
                "denormals, floats next to 1/2 and 1, displacements making remainder+dt land on or next to an "
                "integer, 2^40, inf); every ordered pair of lattice times for the six comparisons and subtraction; "
                "every addition history of length <= %d over a 7-10 letter alphabet from 12+ start times. "
                "Oracle: fractions.Fraction. distinct_nontrivial = distinct regimes reached "
                "(sum inexact?, quotient carried?, dt >= 1?, quotient >= 2^31?, ...)" % (4 if ctx.thorough else 3),
        "samples": [enc(("add", 2.0 ** 52 - 1.0, 1.0 - 2.0 ** -53, [2.0 ** -54, 2.0 ** -53, 1.0])),
                    enc(("cmp", (1.0, 0.5), [(1.0, down(0.5)), (2.0, 0.0), (INF, INF)])),
                    enc(("chain", 2.0 ** 31, 0.5, [0.25, 1.0 - 2.0 ** -53, 3.7]))],
        "exhaustive": True,
        "lattice_sizes": {"quotients": len(Q), "remainders": len(R), "displacements": len(D)},
    }
    res.assumptions = ["IEEE-754 binary64 round-to-nearest as implemented by this CPU/CPython",
                       "left operand of + has a finite quotient (inf + x is outside the property's quantifier)"]
    return res


def replay(ctx, case):
    c = dec(case["case"])
    c = tuple(c)
    _, fails = par.guarded(check_case)(c)
    return sorted(k for k, _ in fails) or None
