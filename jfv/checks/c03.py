"""C03 -- reported event rates are the directional derivative of the model energy.

Engine C.  Convention checked throughout: derivative(velocity, separation = target - active, charges) is the rate of
change of the energy when the *active* unit moves along the velocity, i.e.  -speed * dU/ds_d * charge product.
 (1) radial potentials (1/r^p, Lennard-Jones, displaced even power, nearest-image Coulomb bound in C): analytic
     derivative of an independently coded energy and a central finite difference of that energy in which the active
     unit is moved; every direction through axis-permuted separations; exact linearity in speed and charge product.
 (2) periodic Coulomb (MergedImageCoulombPotential, C): independently coded Ewald derivative (plain triple sums,
     different splitting parameter, larger cut-offs) on a lattice of the minimum-image cube incl. faces, near the
     origin and permuted axes, for several box lengths and (alpha, cut-off) settings: value, oddness in the direction
     of motion, L-periodicity, independence of the splitting, and bit-equality after copy / deepcopy / pickle.
 (3) BendingPotential: per-unit derivatives equal the gradient of an independent angle energy (central differences,
     unequal legs, angles away from equilibrium) and sum to zero.
"""
import copy
import itertools
import math
import pickle

from .. import par, physics
from ..env import init_setting
from ..fl import dec, enc, uniq
from ..core import HarnessError

INF = math.inf


# ---- independent Ewald derivative -----------------------------------------------------------------------------------
def ewald_minus_dU_dx(s, L, a=None, nreal=3, nfour=9):
    """-d/ds_x of the periodic Coulomb energy of two unit charges (tin-foil, neutralising background) in a cubic box:
    plain sums, no folding.  a = splitting parameter (1/length)."""
    if a is None:
        a = 2.6 / L
    x, y, z = s
    tot = 0.0
    two_a_sqrtpi = 2.0 * a / math.sqrt(math.pi)
    for i in range(-nreal, nreal + 1):
        for j in range(-nreal, nreal + 1):
            for k in range(-nreal, nreal + 1):
                rx, ry, rz = x + i * L, y + j * L, z + k * L
                r2 = rx * rx + ry * ry + rz * rz
                r = math.sqrt(r2)
                tot += rx / r2 * (math.erfc(a * r) / r + two_a_sqrtpi * math.exp(-a * a * r2))
    pref = 4.0 * math.pi / L ** 3
    tp = 2.0 * math.pi / L
    four = 0.0
    for i in range(1, nfour + 1):  # k_x > 0 only: the summand is even under k -> -k
        kx = tp * i
        sx = None
        for j in range(-nfour, nfour + 1):
            ky = tp * j
            for k in range(-nfour, nfour + 1):
                kz = tp * k
                k2 = kx * kx + ky * ky + kz * kz
                four += 2.0 * math.exp(-k2 / (4 * a * a)) / k2 * kx * math.sin(kx * x + ky * y + kz * z)
    return tot + pref * four


def check_ewald(case):
    """case = ("ewald", L, (alpha, fcut, pcut) or None, prefactor, [separation...])"""
    from jellyfysh.potential.merged_image_coulomb_potential.merged_image_coulomb_potential import \
        MergedImageCoulombPotential
    _, L, params, k, seps = case
    init_setting((L, L, L), cubic=True)
    if params is None:
        pot = MergedImageCoulombPotential(prefactor=k)
    else:
        pot = MergedImageCoulombPotential(alpha=params[0], fourier_cutoff=params[1], position_cutoff=params[2],
                                          prefactor=k)
    clones = {"copy": copy.copy(pot), "deepcopy": copy.deepcopy(pot), "pickle": pickle.loads(pickle.dumps(pot))}
    try:
        import dill
        clones["dill"] = dill.loads(dill.dumps(pot))
    except Exception:
        pass
    fails = []
    sigs = set()
    n = 0
    for s in seps:
        r = math.sqrt(sum(x * x for x in s))
        scale = k * (1.0 / (r * r) + 1.0 / (L * L))
        for d in range(3):
            vel = [0.0, 0.0, 0.0]
            vel[d] = 1.0
            n += 1
            try:
                q = pot.derivative(vel, list(s), 1.0, 1.0)
            except Exception as e:
                fails.append(("exception", "merged-image L=%r %r derivative(direction %d, %r) raised %r"
                              % (L, params, d, s, e)))
                continue
            perm = (s[d], s[(d + 1) % 3], s[(d + 2) % 3])
            want = k * ewald_minus_dU_dx(perm, L)
            if abs(q - want) > 2e-8 * scale:
                fails.append(("ewald-value", "merged-image Coulomb L=%r settings=%r prefactor=%r direction %d "
                              "separation %r: derivative %r, converged lattice sum %r (difference %.3e, tolerance "
                              "%.3e)" % (L, params, k, d, s, q, want, abs(q - want), 2e-8 * scale)))
            # linearity in speed and charges
            q2 = pot.derivative([v * 2.5 for v in vel], list(s), -0.5, 2.0)
            if abs(q2 - (-2.5 * q)) > 8 * math.ulp(abs(2.5 * q)) + 1e-300:
                fails.append(("linearity", "merged-image L=%r direction %d separation %r: derivative with speed 2.5, "
                              "charges -0.5, 2.0 is %r, expected %r" % (L, d, s, q2, -2.5 * q)))
            # odd in the direction of motion
            m = list(s)
            m[d] = -m[d]
            qm = pot.derivative(vel, m, 1.0, 1.0)
            if abs(qm + q) > 1e-9 * scale:
                fails.append(("oddness", "merged-image L=%r direction %d separation %r: q(-s_d) = %r, q(s_d) = %r"
                              % (L, d, s, qm, q)))
            # periodic in the box: the two representations of a separation on / next to a face agree.  (The truncated
            # image sum is centred on the minimum-image cube -- the only place where JF evaluates it, see
            # periodic_boundaries.separation_vector -- so a shift by L of an interior point, which lands up to L
            # outside the cube, is not asserted: there the truncation error of the shipped cut-offs is ~1e-7.)
            for ax in range(3):
                p = list(s)
                p[ax] = p[ax] - L if p[ax] > 0 else p[ax] + L
                if abs(p[ax]) > L / 2 * (1.0 + 1e-6):
                    continue
                qp = pot.derivative(vel, p, 1.0, 1.0)
                if abs(qp - q) > 2e-8 * scale:
                    fails.append(("periodicity", "merged-image L=%r direction %d: q(%r) = %r but q(%r) = %r"
                                  % (L, d, s, q, p, qp)))
            for name, c in clones.items():
                qc = c.derivative(vel, list(s), 1.0, 1.0)
                if qc != q:
                    fails.append(("clone-differs", "merged-image L=%r settings=%r direction %d separation %r: "
                                  "derivative %r, after %s %r" % (L, params, d, s, q, name, qc)))
            sigs.add(("ewald", params is None, L, d, abs(abs(s[d]) - L / 2) < 1e-9 * L, r < 0.05 * L))
    import jellyfysh.setting as setting
    setting.reset()
    return (frozenset(sigs), n), fails


# ---- radial potentials ----------------------------------------------------------------------------------------------
def check_radial(case):
    """case = ("radial", spec, L, [separation...])"""
    from .c02 import make_potential
    _, spec, L, seps = case
    init_setting((L, L, L), cubic=True)
    pot = make_potential(spec)
    kind = spec[0]
    fails = []
    sigs = set()
    n = 0
    charges = [(1.0, 1.0), (1.0, -1.0), (0.5, -2.0)] if kind in ("invpow", "cbound") else [None]
    for s in seps:
        r = math.sqrt(sum(x * x for x in s))
        for ch in charges:
            cp = 1.0 if ch is None else ch[0] * ch[1]
            if kind == "invpow":
                U, dU = physics.u_inverse_power(spec[2] * cp, spec[1]), physics.du_inverse_power(spec[2] * cp, spec[1])
            elif kind == "lj":
                U, dU = physics.u_lennard_jones(spec[1], spec[2]), physics.du_lennard_jones(spec[1], spec[2])
            elif kind == "even":
                U = physics.u_displaced_even_power(spec[3], spec[1], spec[2])
                dU = physics.du_displaced_even_power(spec[3], spec[1], spec[2])
            else:
                U, dU = physics.u_inverse_power(spec[1] * cp, 1.0), physics.du_inverse_power(spec[1] * cp, 1.0)
            for d in range(3):
                for speed in (1.0, 0.3, 7.0):
                    vel = [0.0, 0.0, 0.0]
                    vel[d] = speed
                    n += 1
                    args = (vel, list(s)) + (ch if ch is not None else ())
                    try:
                        q = pot.derivative(*args)
                    except Exception as e:
                        fails.append(("exception", "%r derivative(%r, %r, %r) raised %r" % (spec, vel, s, ch, e)))
                        continue
                    want = -speed * dU(r) * s[d] / r
                    scale = speed * abs(dU(r))
                    if abs(q - want) > 1e-11 * scale + 1e-300:
                        fails.append(("radial-value", "%r charges=%r velocity=%r separation=%r: derivative %r, "
                                      "-speed dU/dr s_d/r of the model energy is %r" % (spec, ch, vel, s, q, want)))
                    # finite difference: the ACTIVE unit moves by +eps along d => separation component decreases
                    eps = 1e-6 * r
                    sp = list(s)
                    sm = list(s)
                    sp[d] -= eps
                    sm[d] += eps
                    fd = speed * (U(math.sqrt(sum(x * x for x in sp))) - U(math.sqrt(sum(x * x for x in sm)))) / (2 * eps)
                    if abs(q - fd) > 1e-5 * scale + 1e-300:
                        fails.append(("sign-convention", "%r charges=%r velocity=%r separation=%r: derivative %r but "
                                      "moving the active unit changes the energy at rate %r" % (spec, ch, vel, s, q, fd)))
                    sigs.add((kind, d, cp > 0, s[d] > 0))
    import jellyfysh.setting as setting
    setting.reset()
    return (frozenset(sigs), n), fails


# ---- bending --------------------------------------------------------------------------------------------------------
def check_bending(case):
    """case = ("bending", phi0, k, [(r_i, r_j, r_k) positions])"""
    from jellyfysh.potential.bending_potential import BendingPotential
    _, phi0, k, triples = case
    init_setting((10.0, 10.0, 10.0), cubic=True)
    pot = BendingPotential(equilibrium_angle=phi0, prefactor=k)
    fails = []
    n = 0

    def energy(ri, rj, rk):
        a = [ri[d] - rj[d] for d in range(3)]
        b = [rk[d] - rj[d] for d in range(3)]
        cosv = sum(x * y for x, y in zip(a, b)) / math.sqrt(sum(x * x for x in a)) / math.sqrt(sum(x * x for x in b))
        return 0.5 * k * (math.acos(max(-1.0, min(1.0, cosv))) - phi0) ** 2
    for ri, rj, rk in triples:
        s1 = [ri[d] - rj[d] for d in range(3)]
        s2 = [rk[d] - rj[d] for d in range(3)]
        for d in range(3):
            for speed in (1.0, 2.5):
                vel = [0.0, 0.0, 0.0]
                vel[d] = speed
                n += 1
                try:
                    got = pot.derivative(vel, list(s1), list(s2))
                except Exception as e:
                    fails.append(("exception", "bending derivative(%r, %r, %r) raised %r" % (vel, s1, s2, e)))
                    continue
                eps = 1e-6
                want = []
                for unit in range(3):
                    pos = [list(ri), list(rj), list(rk)]
                    pos[unit][d] += eps
                    ep = energy(*pos)
                    pos[unit][d] -= 2 * eps
                    em = energy(*pos)
                    want.append(speed * (ep - em) / (2 * eps))
                scale = max(abs(w) for w in want) + k * 1e-6
                for unit in range(3):
                    # central differences with eps = 1e-6: truncation ~ eps^2 k, rounding ~ 1e-16 k / eps
                    if abs(got[unit] - want[unit]) > 1e-6 * scale + 1e-8 * k * speed:
                        fails.append(("bending-gradient", "bending (phi0=%r, k=%r) units at %r %r %r, velocity %r: "
                                      "derivative for unit %d is %r, gradient of the angle energy gives %r"
                                      % (phi0, k, ri, rj, rk, vel, unit, got[unit], want[unit])))
                        break
                if abs(sum(got)) > 1e-12 * scale * 3 + 1e-300:
                    fails.append(("translation-invariance", "bending units at %r %r %r velocity %r: derivatives %r do "
                                  "not sum to zero" % (ri, rj, rk, vel, got)))
    import jellyfysh.setting as setting
    setting.reset()
    return (frozenset([("bending", phi0)]), n), fails


DISPATCH = {"ewald": check_ewald, "radial": check_radial, "bending": check_bending}


def check_case(case):
    return DISPATCH[case[0]](case)


def cube_lattice(L, m, thorough):
    """separations in the minimum-image cube: regular grid (cell midpoints), faces, near origin, permuted triples"""
    g = [(-0.5 + (i + 0.5) / m) * L for i in range(m)]
    pts = [(x, y, z) for x in g for y in g for z in g if x * x + y * y + z * z > 1e-8 * L * L]
    h = L / 2
    eps = 1e-9 * L
    special = [(h - eps, 0.1 * L, 0.2 * L), (-h + eps, 0.3 * L, -0.2 * L), (0.1 * L, h - eps, -0.3 * L),
               (0.2 * L, 0.1 * L, h - eps), (h - eps, h - eps, 0.1 * L), (h - eps, h - eps, h - eps),
               (1e-3 * L, 2e-3 * L, -1e-3 * L), (1e-2 * L, 0.0, 0.0), (0.0, 1e-2 * L, 0.0), (0.0, 0.0, -1e-2 * L),
               (0.0, 0.3 * L, 0.4 * L), (0.3 * L, 0.0, 0.4 * L)]
    a, b, c = 0.11 * L, -0.23 * L, 0.37 * L
    special += [(a, b, c), (b, c, a), (c, a, b), (a, c, b), (1.0 / 7 * L, 1.0 / 8 * L, 1.0 / 5 * L)]
    if thorough:
        special += [(h - eps, -h + eps, 0.25 * L), (0.49 * L, 0.49 * L, -0.49 * L), (1e-3 * L, 0.0, 0.0),
                    (0.25 * L, 0.25 * L, 0.25 * L)]
    return pts + special


def cases(ctx):
    t = ctx.thorough
    m = 11 if t else 6
    chunk = 12
    for L, params, k in [(1.0, None, 1.0), (2.5, None, 1.0), (10.0, None, 332.0), (1.0, (2.8, 8, 3), 1.0),
                         (1.0, (4.5, 9, 2), 1.0), (10.0, (3.45, 6, 2), 1.0)] + ([(12.836, None, 1.0)] if t else []):
        pts = cube_lattice(L, m if params is None and L == 1.0 else max(3, m - 3), t)
        for j in range(0, len(pts), chunk):
            yield ("ewald", L, params, k, pts[j:j + chunk])
    radial_specs = [(("invpow", 1.0, 1.3), 1.0), (("invpow", 2.0, 0.3), 1.0), (("invpow", 6.0, 1e-6), 1.0),
                    (("invpow", 12.0, 1.0), 2.5), (("invpow", 1.0, -2.0), 10.0), (("lj", 0.62, 0.3), 1.0),
                    (("lj", 0.6217012, 3.165492), 10.0), (("even", 0.1, 2, 200.0), 1.0),
                    (("even", 0.15, 4, 3000.0), 1.0), (("even", 1.012, 2, 529.581), 10.0), (("cbound", 1.5837), 1.0),
                    (("cbound", 531.2), 10.0)]
    for spec, L in radial_specs:
        pts = [p for p in cube_lattice(L, 5 if t else 3, t) if math.sqrt(sum(x * x for x in p)) > 0.02 * L]
        for j in range(0, len(pts), 20):
            yield ("radial", spec, L, pts[j:j + 20])
    # bending: water-like and asymmetric molecules
    triples = []
    for l1, l2 in [(1.012, 1.012), (1.0, 1.1), (0.9, 1.3), (1.012, 0.8)]:
        for ang in (1.9764, 1.7, 2.2, 1.2, 2.9):
            for rot in range(3 if t else 2):
                rj = [5.0, 5.0, 5.0]
                u = [math.cos(0.3 + rot), math.sin(0.3 + rot) * math.cos(0.5), math.sin(0.3 + rot) * math.sin(0.5)]
                # second leg: rotate u by ang around an axis perpendicular to u
                w = [-u[1], u[0], 0.0]
                nw = math.sqrt(sum(x * x for x in w))
                w = [x / nw for x in w]
                v = [u[d] * math.cos(ang) + w[d] * math.sin(ang) for d in range(3)]
                ri = [rj[d] + l1 * u[d] for d in range(3)]
                rk = [rj[d] + l2 * v[d] for d in range(3)]
                triples.append((tuple(ri), tuple(rj), tuple(rk)))
    for j in range(0, len(triples), 8):
        yield ("bending", 1.9764, 75.9, triples[j:j + 8])


def run(ctx):
    from ..core import Result
    res = Result()
    all_cases = list(cases(ctx))
    n, sigs, fails = par.run_cases(check_case, all_cases, ctx.cores, chunk=1, max_fail=30)
    evals = 0
    regimes = set()
    for s, k in sigs:
        evals += k
        regimes |= set(s)
    for key, case, msg in fails:
        res.add(key, {"case": enc(case)}, msg)
    res.coverage = {
        "evaluations": evals, "case_bundles": n, "distinct_nontrivial": len(regimes),
        "rule": "one evaluation = one real derivative() call at a lattice separation (regular grid of the minimum-image "
                "cube + faces +-L/2 -+ 1e-9 L + near origin + axis-permuted triples) x 3 directions (x speeds / charge "
                "pairs for radial potentials) compared with the analytic derivative of an independent energy, a "
                "central difference moving the active unit, and for the lattice sum an independently coded Ewald "
                "derivative (alpha = 2.6/L, cut-offs 3/9); plus oddness, L-periodicity, splitting independence, "
                "copy/deepcopy/pickle/dill equality, bending gradients and translation invariance",
        "samples": [enc(all_cases[0])[:4] + [enc(all_cases[0][4][:2])], enc(("bending", 1.9764, 75.9))],
        "exhaustive": True,
    }
    res.assumptions = ["tolerance 2e-8 (1/r^2 + 1/L^2) for the lattice sum (truncation of the shipped cut-offs), 1e-11 "
                       "relative for radial potentials, 1e-6 relative for finite-difference gradients"]
    return res


def replay(ctx, case):
    c = dec(case["case"])
    _, fails = par.guarded(check_case)(c)
    return sorted(set(k for k, _ in fails)) or None
