"""C04 -- thinning is sound: the bounding rate dominates and acceptance is the exact ratio.

(a) Domination (engine C): the real MergedImageCoulombPotential and InversePowerCoulombBoundingPotential are evaluated
    on a node-centred lattice of the minimum-image cube (41^3 quick / 81^3 thorough; includes the planes s_d = 0 and
    the faces) x 3 directions x both charge-product signs x box lengths, for the default prefactor 1.5837 and the
    shipped water prefactors 332 / 531.2:  max(0, q_true) <= max(0, q_bound) (+ rounding) and q_bound > 0 wherever
    q_true > 0; a deterministic pattern search from the 20 largest ratios locates the supremum (reported).
(b) Confirmation (engine C on real handlers): TwoLeafUnitBoundingPotentialEventHandler and
    TwoCompositeObjectSummedBoundingPotentialEventHandler (2- and 3-atom molecules) on a set of in-states: after
    send_event_time with a scripted budget, send_out_state is run for the confirmation draw u on a grid and the
    acceptance threshold is located by bisection: events are confirmed exactly for u * q_bound < max(0, q_true)
    evaluated at the time-sliced configuration, and an unconfirmed event changes no velocity.
(c) Engine A on the shipped configurations that thin with the 1/r bound: at every thinned event of every explored
    execution the true rate handed to the confirmation is <= the bounding rate.
"""
import collections
import copy
import math

from .. import par, envdrive, specs as specmod, handlers as hx
from ..env import init_setting
from ..fl import dec, enc
from ..core import HarnessError
from . import _enva

ONE_BELOW = 1.0 - 2.0 ** -53
J = "2018_JCP_149_064113/"


def _pots(L, k_true, k_bound):
    from jellyfysh.potential.merged_image_coulomb_potential.merged_image_coulomb_potential import \
        MergedImageCoulombPotential
    from jellyfysh.potential.inverse_power_coulomb_bounding_potential.inverse_power_coulomb_bounding_potential import \
        InversePowerCoulombBoundingPotential
    init_setting((L, L, L), cubic=True)
    true = MergedImageCoulombPotential(prefactor=k_true)
    bound = InversePowerCoulombBoundingPotential() if k_bound is None else \
        InversePowerCoulombBoundingPotential(prefactor=k_bound)
    return true, bound


def check_domination(case):
    """case = ("dom", L, k_true, k_bound, m, i0, i1): slab i0 <= i < i1 of the m^3 node lattice"""
    _, L, kt, kb, m, i0, i1 = case
    true, bound = _pots(L, kt, kb)
    fails = []
    top = []  # (ratio, s, d)
    n = 0
    h = L / 2
    coords = [(-0.5 + i / (m - 1.0)) * L for i in range(m)]
    coords[-1] = math.nextafter(h, 0.0)  # separations live in [-L/2, L/2)
    vel = [[1.0, 0.0, 0.0], [0.0, 1.0, 0.0], [0.0, 0.0, 1.0]]
    scale = (kt if kt else 1.0) / (L * L)
    for i in range(i0, i1):
        x = coords[i]
        for y in coords:
            for z in coords:
                if x * x + y * y + z * z < 1e-6 * L * L:
                    continue
                s = [x, y, z]
                for d in range(3):
                    q = true.derivative(vel[d], s, 1.0, 1.0)
                    qb = bound.derivative(vel[d], s, 1.0, 1.0)
                    n += 1
                    # both charge-product signs: rates are max(0, +-q)
                    for sign in (1.0, -1.0):
                        rt, rb = sign * q, sign * qb
                        if rt > 0:
                            tol = 1e-12 * (abs(rt) + scale)
                            if rb <= 0 and rt > 1e-10 * scale:
                                if len(fails) < 5:
                                    fails.append(("bound-not-positive", "L=%r prefactors %r/%r separation %r direction "
                                                  "%d charge product %+g: true rate %r > 0 but bounding rate %r"
                                                  % (L, kt, kb, s, d, sign, rt, rb)))
                            elif rt > rb + tol:
                                if len(fails) < 5:
                                    fails.append(("not-dominated", "L=%r prefactors %r/%r separation %r direction %d "
                                                  "charge product %+g: true rate %r exceeds the bounding rate %r "
                                                  "(ratio %.6f)" % (L, kt, kb, s, d, sign, rt, rb, rt / rb)))
                            if rb > 0 and rt > 1e-9 * scale:
                                r = rt / rb
                                if len(top) < 20 or r > top[0][0]:
                                    top.append((r, tuple(s), d, sign))
                                    top.sort()
                                    top = top[-20:]
    import jellyfysh.setting as setting
    setting.reset()
    return (("dom", L, kt, kb), n, tuple(top)), fails


def refine(case):
    """case = ("refine", L, k_true, k_bound, start separation, direction, sign): pattern search for the supremum"""
    _, L, kt, kb, s0, d, sign = case
    true, bound = _pots(L, kt, kb)
    vel = [0.0, 0.0, 0.0]
    vel[d] = 1.0
    h = math.nextafter(L / 2, 0.0)

    def ratio(s):
        rt = sign * true.derivative(vel, list(s), 1.0, 1.0)
        rb = sign * bound.derivative(vel, list(s), 1.0, 1.0)
        return rt / rb if rb > 0 else (math.inf if rt > 1e-12 else -math.inf)
    s = list(s0)
    best = ratio(s)
    step = L / 80.0
    evals = 1
    while step > 1e-7 * L:
        moved = False
        for ax in range(3):
            for sg in (1, -1):
                c = list(s)
                c[ax] = min(h, max(-L / 2, c[ax] + sg * step))
                r = ratio(c)
                evals += 1
                if r > best:
                    best, s, moved = r, c, True
        if not moved:
            step /= 2
    fails = []
    if best > 1.0 + 1e-12:
        fails.append(("not-dominated", "L=%r prefactors %r/%r: pattern search from %r finds separation %r direction %d "
                      "charge product %+g where the true rate exceeds the bounding rate by the factor %.9f"
                      % (L, kt, kb, s0, s, d, sign, best)))
    import jellyfysh.setting as setting
    setting.reset()
    return (("refine", L, kt, kb), evals, ((best, tuple(s), d, sign),)), fails


# ---- (b) confirmation ------------------------------------------------------------------------------------------------
def _in_states(kind, L):
    """A list of (in-state, description)."""
    Q = "q"
    out = []
    if kind == "atoms":
        for sep, cq in [((0.2, 0.1, 0.05), 1.0), ((-0.2, 0.1, 0.05), 1.0), ((0.3, -0.2, 0.1), -1.0),
                        ((-0.3, -0.2, 0.1), -1.0), ((0.05, 0.02, 0.0), 1.0), ((0.45, 0.4, -0.45), 1.0),
                        ((-0.45, 0.3, 0.2), -1.0), ((0.1, 0.0, 0.3), 0.5)]:
            for d in range(3):
                vel = [0.0, 0.0, 0.0]
                vel[d] = 1.3
                a = [0.5 * L, 0.5 * L, 0.5 * L]
                b = [(a[i] + sep[i] * L) % L for i in range(3)]
                out.append(([hx.atom_branch(0, a, {Q: 1.0}, vel, (2.0, 0.25)), hx.atom_branch(1, b, {Q: cq})],
                            "atoms sep=%r*L q=%r dir=%d" % (sep, cq, d)))
    else:
        n = 2 if kind == "dipoles" else 3
        for off, d in [((0.3, 0.1, -0.2), 0), ((-0.25, 0.2, 0.1), 0), ((0.1, 0.3, 0.2), 1), ((0.15, -0.2, 0.35), 2),
                       ((0.4, 0.4, 0.1), 0), ((-0.1, -0.35, 0.2), 1)]:
            for active in range(n):
                vel = [0.0, 0.0, 0.0]
                vel[d] = 1.0
                c1 = [0.3 * L, 0.3 * L, 0.3 * L]
                c2 = [(c1[i] + off[i] * L) % L for i in range(3)]
                shape = [(0.0, 0.0, 0.0), (0.03, 0.01, -0.02), (-0.02, 0.03, 0.01)][:n]
                ch = [{Q: 1.0}, {Q: -1.0}] if n == 2 else [{Q: 0.41}, {Q: -0.82}, {Q: 0.41}]
                pa = [[c1[i] + sh[i] * L for i in range(3)] for sh in shape]
                pb = [[(c2[i] + sh[i] * L) % L for i in range(3)] for sh in shape]
                out.append(([hx.molecule_branch(0, pa, ch, active, vel, (1.0, 0.5)), hx.molecule_branch(1, pb, ch)],
                            "%s offset=%r*L dir=%d active leaf %d" % (kind, off, d, active)))
    return out


def check_confirmation(case):
    """case = ("confirm", kind, L, k_true, k_bound, lifting, copied): copied = use a deepcopy of the handler, as the
    taggers do for every event handler but the first of their pool"""
    import jellyfysh.setting as setting
    _, kind, L, kt, kb, lifting, copied = case
    true, bound = _pots(L, kt, kb)
    setting.reset()
    init_setting((L, L, L), cubic=True, roots=2, per_root={"atoms": 1, "dipoles": 2, "water": 3}[kind])
    true, bound = _pots_noreset(L, kt, kb)
    if kind == "atoms":
        from jellyfysh.event_handler.two_leaf_unit_bounding_potential_event_handler import \
            TwoLeafUnitBoundingPotentialEventHandler
        handler = TwoLeafUnitBoundingPotentialEventHandler(potential=true, bounding_potential=bound, charge="q")
    else:
        import importlib
        from jellyfysh.event_handler.two_composite_object_summed_bounding_potential_event_handler import \
            TwoCompositeObjectSummedBoundingPotentialEventHandler
        mod, cls = lifting.split(".")
        lift = getattr(importlib.import_module("jellyfysh.lifting." + mod), cls)()
        handler = TwoCompositeObjectSummedBoundingPotentialEventHandler(potential=true, bounding_potential=bound,
                                                                        lifting=lift, charge="q")
    if copied == "dill":
        import dill
        handler = dill.loads(dill.dumps(handler))  # what a resumed run uses
    elif copied:
        handler = copy.deepcopy(handler)
    fails = []
    n = 0
    sigs = set()
    for in_state, desc in _in_states(kind, L):
        desc = desc + (" [handler restored from a dill dump]" if copied == "dill" else
                       " [deep-copied handler]" if copied else "")
        E = 0.7
        try:
            t, out, _ = hx.run_event(handler, in_state, E, [ONE_BELOW])
        except Exception as e:
            fails.append(("exception", "%s: %r" % (desc, e)))
            continue
        n += 1
        # configuration at the event time, from the out-state of a rejected event (u ~ 1: never confirmed)
        before = hx.moving_leaves(in_state)
        if hx.moving_leaves(out) != before:
            fails.append(("confirmed-at-u-1", "%s: an event with confirmation draw u = 1 - 2^-53 changed the moving unit"
                          % desc))
            continue
        units = {l.value.identifier: l.value for r in out for l in hx.leaves(r)}
        act = units[before[0]]
        targets = [u for i, u in units.items() if i[0] != act.identifier[0]]
        vel = act.velocity
        q = qb = 0.0
        pb = setting.periodic_boundaries
        for tu in targets:
            sepv = pb.separation_vector(act.position, tu.position)
            q += true.derivative(vel, list(sepv), act.charge["q"], tu.charge["q"])
            b1 = bound.derivative(vel, list(sepv), act.charge["q"], tu.charge["q"])
            qb += max(0.0, b1) if kind != "atoms" else b1
        want = max(0.0, q) / qb if qb > 0 else 0.0
        sigs.add((kind, q > 0, want > 0.5))

        def accepted(u):
            _, o, sc = hx.run_event(handler, in_state, E, [u, 0.5, 0.5])
            return hx.moving_leaves(o) != before, o
        try:
            if q <= 0 or qb <= 0:
                for u in (0.0, 0.5, ONE_BELOW):
                    a, o = accepted(u)
                    n += 1
                    if a:
                        fails.append(("confirmed-without-rate", "%s: true rate %r <= 0 (bounding rate %r) but the event "
                                      "is confirmed for u = %r" % (desc, q, qb, u)))
                        break
                continue
            lo, hi = 0.0, ONE_BELOW
            a0, _ = accepted(lo)
            if not a0:
                fails.append(("never-confirmed", "%s: true rate %r > 0, bounding rate %r, but not confirmed even for "
                              "u = 0" % (desc, q, qb)))
                continue
            if want < 1.0:
                for _ in range(52):
                    mid = 0.5 * (lo + hi)
                    a, _o = accepted(mid)
                    n += 1
                    if a:
                        lo = mid
                    else:
                        hi = mid
                if abs(hi - want) > 1e-9:
                    fails.append(("acceptance-ratio", "%s: events are confirmed for u < %.12f; max(0, true rate) / "
                                  "bounding rate = %r / %r = %.12f" % (desc, hi, q, qb, want)))
            # an unconfirmed event leaves every velocity unchanged (only time slicing)
            a, o = accepted(min(ONE_BELOW, want + 0.25 * (1 - want) + 1e-6))
            if not a:
                vb = {l.value.identifier: l.value.velocity for r in in_state for l in hx.leaves(r)}
                va = {l.value.identifier: l.value.velocity for r in o for l in hx.leaves(r)}
                if vb != va:
                    fails.append(("rejection-changes-velocity", "%s: unconfirmed event changed velocities %r -> %r"
                                  % (desc, vb, va)))
        except Exception as e:
            fails.append(("exception", "%s: %r" % (desc, e)))
    setting.reset()
    return (("confirm", kind, L, frozenset(sigs)), n, ()), fails


def _pots_noreset(L, k_true, k_bound):
    from jellyfysh.potential.merged_image_coulomb_potential.merged_image_coulomb_potential import \
        MergedImageCoulombPotential
    from jellyfysh.potential.inverse_power_coulomb_bounding_potential.inverse_power_coulomb_bounding_potential import \
        InversePowerCoulombBoundingPotential
    true = MergedImageCoulombPotential(prefactor=k_true)
    bound = InversePowerCoulombBoundingPotential() if k_bound is None else \
        InversePowerCoulombBoundingPotential(prefactor=k_bound)
    return true, bound


def shipped_bound_settings():
    """(L, true prefactor, bound prefactor or None, [ini...]) for every shipped configuration that thins with the
    nearest-image 1/r bound, read from the .ini files as they are now."""
    from .. import cfg
    out = {}
    for ini in cfg.SHIPPED + cfg.PDB_INPUT:
        c = cfg.load(ini)
        uses = any(c.has_option(sec, "bounding_potential") and
                   "inverse_power_coulomb_bounding_potential" in c.get(sec, "bounding_potential")
                   for sec in c.sections())
        if not uses or not c.has_section("HypercubicSetting"):
            continue
        L = float(c.get("HypercubicSetting", "system_length"))
        kt = float(c.get("MergedImageCoulombPotential", "prefactor")) \
            if c.has_option("MergedImageCoulombPotential", "prefactor") else 1.0
        kb = float(c.get("InversePowerCoulombBoundingPotential", "prefactor")) \
            if c.has_option("InversePowerCoulombBoundingPotential", "prefactor") else None
        out.setdefault((L, kt, kb), []).append(ini)
    return out


DISPATCH = {"dom": check_domination, "refine": refine, "confirm": check_confirmation}


def check_case(case):
    return DISPATCH[case[0]](case)


def run(ctx):
    from ..core import Result
    res = Result()
    m = 81 if ctx.thorough else 41
    shipped = shipped_bound_settings()
    settings = [(1.0, 1.0, None), (2.0, 1.0, None), (10.0, 1.0, None)]
    settings += [k for k in sorted(shipped, key=repr) if k not in settings]
    if ctx.thorough:
        settings += [(12.836, 1.0, None), (0.3, 1.0, None)]
    dom = []
    for L, kt, kb in settings:
        mm = m if (L == 1.0 or ctx.thorough) else 21
        slab = max(1, mm // 16)
        for i0 in range(0, mm, slab):
            dom.append(("dom", L, kt, kb, mm, i0, min(mm, i0 + slab)))
    n1, sigs1, fails1 = par.run_cases(check_case, dom, ctx.cores, chunk=1, max_fail=20)
    tops = collections.defaultdict(list)
    evals = 0
    for sig, k, top in sigs1:
        evals += k
    # run_cases merges signatures into a set; regroup the top ratios per setting
    for sig, k, top in sigs1:
        tops[sig[1:]].extend(top)
    ref_cases = []
    for (L, kt, kb), lst in tops.items():
        lst.sort()
        for r, s, d, sign in lst[-20:]:
            ref_cases.append(("refine", L, kt, kb, s, d, sign))
    n2, sigs2, fails2 = par.run_cases(check_case, ref_cases, ctx.cores, chunk=2)
    sup = {}
    for sig, k, top in sigs2:
        evals += k
        for r, s, d, sign in top:
            if r > sup.get(sig[1:], (0,))[0]:
                sup[sig[1:]] = (r, s, d, sign)
    conf = []
    for L, kt, kb in [(1.0, 1.0, None), (10.0, 332.0, 531.2)]:
        for copied in (False, True, "dill"):
            conf.append(("confirm", "atoms", L, kt, kb, None, copied))
            for lift in ("inside_first_lifting.InsideFirstLifting", "ratio_lifting.RatioLifting"):
                conf.append(("confirm", "dipoles", L, kt, kb, lift, copied))
                conf.append(("confirm", "water", L, kt, kb, lift, copied))
    n3, sigs3, fails3 = par.run_cases(check_case, conf, ctx.cores, chunk=1)
    for sig, k, _ in sigs3:
        evals += k
    for key, case, msg in fails1 + fails2 + fails3:
        res.add(key, {"case": enc(case)}, msg)
    # (c) explored runs
    names = ["coulomb_atoms/power_bounded.ini", "dipoles/atom_factors.ini", "dipoles/dipole_factors_inside_first.ini",
             "dipoles/dipole_factors_ratio.ini", "dipoles/dipole_motion.ini",
             "water/coulomb_power_bounded_lj_inverted.ini", "water/coulomb_power_bounded_lj_cell_bounded.ini"]
    sp = [s for s in specmod.shipped(25) if any(s.ini.endswith(n) for n in names)]
    sp += [specmod.scaled(J + "coulomb_atoms/power_bounded.ini", 3), specmod.scaled(J + "dipoles/atom_factors.ini", 3)]
    st = _enva.run_monitors(ctx, res, ("C04",), spec_filter=None, prefixes=("C04:",), specs_override=sp)
    res.coverage = {
        "evaluations": evals + st["executions"], "lattice_evaluations": evals,
        "distinct_nontrivial": len(sigs1) + len(sigs3) + len(st["outcomes"]),
        "supremum_true_over_bound": {str(k): {"ratio": v[0], "separation": list(v[1]), "direction": v[2],
                                              "charge_product_sign": v[3]} for k, v in sup.items()},
        "shipped_bound_settings": {repr(k): v for k, v in shipped.items()},
        "explored_executions": st["executions"], "thinned_events_checked_in_runs": st.get("c04_thinned", 0),
        "rule": "(a) node lattice %d^3 (L=1; 21^3 for the other box lengths in quick) of [-L/2, L/2)^3 x 3 directions x "
                "both charge signs on the real potentials + pattern search from the 20 largest ratios per setting; "
                "(b) real bounding-potential handlers on 24 atom / 12-18 molecule in-states, acceptance threshold by "
                "52-step bisection over the confirmation draw; (c) all <= 1-deviation executions (engine A) of 9 "
                "configurations that thin with the 1/r bound. distinct_nontrivial = lattice slabs + confirmation "
                "regimes + distinct run outcomes" % m,
        "samples": [enc(dom[0]), enc(conf[0])],
        "exhaustive": True,
    }
    res.assumptions = ["domination tolerance 1e-12 (|q| + 1/L^2): rounding residues at s_d = 0",
                       "true and bounding rates in (b) are read from the real potential objects (their values are "
                       "C03's subject); (b) checks the handlers' confirmation logic"]
    return res


def replay(ctx, case):
    if "case" in case:
        c = dec(case["case"])
        _, fails = par.guarded(check_case)(c)
        return sorted(set(k for k, _ in fails)) or None
    return _enva.replay(ctx, case, ("C04",))
