"""C02 -- the candidate event distance inverts the cumulative uphill energy exactly.

Engine C: for every invertible potential, a lattice of (perpendicular distance rho, parallel component s_d, direction,
charge sign, parameters, box length, energy budget) that contains every branch boundary of the case trees of the code
(s_d = 0, |s| = r_eq, tangent to the minimum sphere rho = r_eq, s_d = +-L/2; each +-{0,1,2,5} ulp) plus a regular
grid.  Oracle: closed-form cumulative positive increment of an independently coded radial energy along the straight
path (jfv/physics.py):  uphill(returned time * speed) == budget, returned time infinite iff the path never accumulates
the budget; hard cores: smallest root of |s - v t| = sigma (largest root for the maximal bond length) in 60-digit
arithmetic.  Totality and sign for all positive budgets down to 5e-324 and at (hill -+ 4 ulp).
"""
import itertools
import math

from .. import par, physics
from ..env import init_setting
from ..fl import around, dec, enc, uniq
from ..core import HarnessError

INF = math.inf
TINY = 2.0 ** -40


def perp(rho, phi):
    return rho * math.cos(phi), rho * math.sin(phi)


DIM = [3]


def sep(direction, sd, a, b):
    if DIM[0] == 2:
        s = [0.0, 0.0]
        s[direction] = sd
        s[1 - direction] = a
        return s
    s = [0.0, 0.0, 0.0]
    s[direction] = sd
    s[(direction + 1) % 3] = a
    s[(direction + 2) % 3] = b
    return s


def budgets(hill, umax_scale, thorough):
    """Energy budgets: around the hill height, geometric grid, extreme."""
    out = []
    if hill is not None and 0.0 < hill < INF:
        out += around(hill, 4) + [hill * (1 - 1e-9), hill * (1 + 1e-9), hill / 2, hill * 2, hill * 0.999, hill * 1.001]
    g = [1e-12, 1e-9, 1e-6, 1e-4, 1e-2, 0.1, 0.5, 1.0, 3.0, 10.0, 100.0, 1e3]
    if thorough:
        g += [1e-10, 1e-8, 1e-5, 1e-3, 0.03, 0.3, 2.0, 30.0]
    out += [x * max(umax_scale, 1e-300) for x in g]
    out += [5e-324, 1e-300, 1e-20 * max(umax_scale, 1e-300)]
    return [e for e in uniq(out) if e > 0.0 and e < INF]


# ----------------------------------------------------------------------------------------------------------------------
def make_potential(spec):
    kind = spec[0]
    if kind == "invpow":
        from jellyfysh.potential.inverse_power_potential import InversePowerPotential
        return InversePowerPotential(power=spec[1], prefactor=spec[2])
    if kind == "lj":
        from jellyfysh.potential.lennard_jones_potential import LennardJonesPotential
        return LennardJonesPotential(prefactor=spec[1], characteristic_length=spec[2])
    if kind == "even":
        from jellyfysh.potential.displaced_even_power_potential import DisplacedEvenPowerPotential
        return DisplacedEvenPowerPotential(equilibrium_separation=spec[1], power=spec[2], prefactor=spec[3])
    if kind == "cbound":
        from jellyfysh.potential.inverse_power_coulomb_bounding_potential.inverse_power_coulomb_bounding_potential \
            import InversePowerCoulombBoundingPotential
        return InversePowerCoulombBoundingPotential(prefactor=spec[1])
    raise HarnessError("unknown potential spec %r" % (spec,))


def radial(spec, charge):
    """(U(r), critical radii, r_eq)"""
    kind = spec[0]
    if kind == "invpow":
        return physics.u_inverse_power(spec[2] * charge, spec[1]), (), None
    if kind == "lj":
        req = spec[2] * 2.0 ** (1.0 / 6.0)
        return physics.u_lennard_jones(spec[1], spec[2]), (req,), req
    if kind == "even":
        return physics.u_displaced_even_power(spec[3], spec[1], spec[2]), (spec[1],), spec[1]
    raise HarnessError(spec)


def check_open(case):
    """case = ("open", potential spec, L, charge, direction, rho, phi, [s_d...], speed)"""
    _, spec, L, charge, direction, rho, phi, sds, speed, tier = case[:10]
    DIM[0] = case[10] if len(case) > 10 else 3
    init_setting((L,) * DIM[0], cubic=True)
    pot = make_potential(spec)
    U, crit, req = radial(spec, charge)
    a, b = perp(rho, phi)
    if DIM[0] == 2:
        a, b = rho, 0.0
    rho2 = a * a + b * b
    fails = []
    sigs = set()
    nev = 0
    vel = [0.0] * DIM[0]
    vel[direction] = speed
    has_charge = spec[0] == "invpow"
    head_on = rho2 == 0.0
    for sd in sds:
        if rho2 + sd * sd < 1e-8:
            continue
        if head_on:
            # exactly aligned units (every 1-D configuration): only totality and sign are decided here
            for E in (1e-3, 0.5, 20.0):
                nev += 1
                s = sep(direction, sd, 0.0, 0.0)
                args = (vel, s, 1.0, charge, E) if has_charge else (vel, s, E)
                try:
                    t = pot.displacement(*args)
                    if not isinstance(t, float) or t != t or t < -1e-12 * L:
                        fails.append(("totality-head-on", "%r charge=%r direction=%d head-on separation=%r budget=%r: "
                                      "displacement returned %r" % (spec, charge, direction, s, E, t)))
                except Exception as e:
                    fails.append(("totality-head-on", "%r charge=%r direction=%d head-on separation=%r budget=%r: "
                                  "displacement raised %r" % (spec, charge, direction, sep(direction, sd, 0.0, 0.0), E, e)))
            sigs.add((spec[0], charge > 0, "head-on", sd > 0, DIM[0]))
            continue
        hill, umax = physics.total_uphill_open(U, sd, rho2, crit, far=1e7)
        if not (hill < INF):
            hill = INF
        characteristic = {"invpow": 0.0, "lj": abs(spec[1]), "even": abs(spec[-1]) * spec[1] ** spec[2] if spec[0] == "even"
                          else 0.0}[spec[0]]
        scale = max(abs(U(math.sqrt(rho2 + sd * sd))), abs(U(math.sqrt(rho2))) if rho2 > 0 else 0.0, characteristic,
                    1e-300)
        unbounded = spec[0] == "even"  # energy grows without bound at large r: every budget is reached
        for E in budgets(None if unbounded else hill, scale, case[-1] == "T"):
            s = sep(direction, sd, a, b)
            args = (vel, s, 1.0, charge, E) if has_charge else (vel, s, E)
            nev += 1
            # (the hill height is a difference of two energies of size |U|: 'within 2^-40 of it' is meant in units of |U|)
            extreme = E < TINY * scale or (not unbounded and hill > 0 and abs(E - hill) < TINY * max(hill, scale))
            try:
                t = pot.displacement(*args)
            except Exception as e:
                key = "totality-extreme" if extreme else "totality"
                fails.append((key, "%r L=%r charge=%r direction=%d separation=%r speed=%r budget=%r: displacement "
                              "raised %r" % (spec, L, charge, direction, sep(direction, sd, a, b), speed, E, e)))
                continue
            if isinstance(t, complex) or not isinstance(t, float) or t != t:
                key = "totality-extreme" if extreme else "totality"
                fails.append((key, "%r charge=%r direction=%d separation=%r budget=%r: displacement returned %r"
                              % (spec, charge, direction, sep(direction, sd, a, b), E, t)))
                continue
            if t < -1e-12 * L:
                fails.append(("negative-extreme" if extreme else "negative",
                              "%r charge=%r direction=%d separation=%r budget=%r: displacement %r < 0"
                              % (spec, charge, direction, sep(direction, sd, a, b), E, t)))
                continue
            if extreme:
                continue
            # the hill height itself is only known to eps * |U| (difference of two energies of size |U|)
            near_hill = (not unbounded) and hill > 0 and abs(E - hill) < 1e-6 * hill + 1e-11 * max(umax, scale)
            if t == INF:
                sigs.add((spec[0], charge > 0, "inf", sd > 0, req is not None and rho < req, DIM[0]))
                if not near_hill and (unbounded or hill > E * (1 + 1e-9)):
                    fails.append(("infinite-but-reachable", "%r charge=%r direction=%d separation=%r budget=%r: "
                                  "displacement is infinite although the path accumulates %r"
                                  % (spec, charge, direction, sep(direction, sd, a, b), E, hill)))
                continue
            D = t * speed
            u, um = physics.uphill_open(U, sd, rho2, D, crit)
            tol = 1e-9 * E + 1e-11 * max(um, scale)
            sigs.add((spec[0], charge > 0, "finite", sd > 0, req is not None and rho < req,
                      req is not None and math.sqrt(rho2 + sd * sd) < req, D > sd, DIM[0]))
            if near_hill:
                continue
            if not unbounded and hill < E * (1 - 1e-9):
                fails.append(("finite-but-unreachable", "%r charge=%r direction=%d separation=%r budget=%r: finite "
                              "displacement %r although the path only accumulates %r"
                              % (spec, charge, direction, sep(direction, sd, a, b), E, t, hill)))
                continue
            if abs(u - E) > tol:
                fails.append(("uphill-identity", "%r L=%r charge=%r direction=%d speed=%r separation=%r budget=%r: "
                              "returned time %r; the energy accumulated uphill along that path is %r (error %.3e, "
                              "tolerance %.3e)" % (spec, L, charge, direction, speed, sep(direction, sd, a, b), E, t, u,
                                                   abs(u - E), tol)))
    import jellyfysh.setting as setting
    setting.reset()
    return (frozenset(sigs), nev), fails


def check_cbound(case):
    """case = ("cbound", prefactor, L, charge, direction, rho, phi, [s_d...], speed)"""
    _, k, L, charge, direction, rho, phi, sds, speed, tier = case
    DIM[0] = 3
    init_setting((L, L, L), cubic=True)
    pot = make_potential(("cbound", k))
    a, b = perp(rho, phi)
    rho2 = a * a + b * b
    fails = []
    sigs = set()
    nev = 0
    vel = [0.0, 0.0, 0.0]
    vel[direction] = speed
    c = k * charge
    if rho2 == 0.0:
        # units exactly aligned with the direction of motion: the path runs through the singularities of the 1/r images.
        # Repulsive: the barrier in front is infinite, every budget is reached before it.  Attractive: the budget is
        # either reached on the way out to L/2, or the unit falls into the next image (the code reports the distance to
        # that singularity).  Closed forms of the one-dimensional problem.
        ca = abs(c)
        for sd in sds:
            if abs(sd) < 1e-3 * L or abs(sd) > L / 2:
                continue
            for E in (1e-3 * ca / L, 0.5 * ca / L, 20.0 * ca / L):
                nev += 1
                s = sep(direction, sd, 0.0, 0.0)
                r0 = abs(sd)
                if c > 0:
                    if sd > 0:
                        want = r0 - 1.0 / (E / ca + 1.0 / r0)
                    else:
                        want = (L / 2 - r0) + (L / 2 - 1.0 / (E / ca + 2.0 / L))
                else:
                    if sd > 0:
                        want = r0
                    else:
                        gain = ca * (1.0 / r0 - 2.0 / L)
                        want = 1.0 / (1.0 / r0 - E / ca) - r0 if E < gain * (1 - 1e-9) else (
                            L - r0 if E > gain * (1 + 1e-9) else None)
                try:
                    t = pot.displacement(vel, s, 1.0, charge, E)
                except Exception as e:
                    fails.append(("totality", "cbound k=%r L=%r charge=%r direction=%d aligned separation=%r budget=%r "
                                  "raised %r" % (k, L, charge, direction, s, E, e)))
                    continue
                if not isinstance(t, float) or t != t or t < -1e-12 * L:
                    fails.append(("totality", "cbound k=%r L=%r charge=%r direction=%d aligned separation=%r budget=%r "
                                  "returned %r" % (k, L, charge, direction, s, E, t)))
                    continue
                sigs.add(("cbound", charge > 0, sd > 0, "aligned"))
                if want is not None and abs(t * speed - want) > 1e-9 * L:
                    fails.append(("uphill-identity", "periodic Coulomb bound k=%r L=%r charge=%r direction=%d aligned "
                                  "separation=%r budget=%r: returned distance %r, the one-dimensional closed form gives "
                                  "%r" % (k, L, charge, direction, s, E, t * speed, want)))
        import jellyfysh.setting as setting
        setting.reset()
        return (frozenset(sigs), nev), fails
    for sd in sds:
        if rho2 + sd * sd < 1e-8 or abs(sd) > L / 2:
            continue
        lap = abs(c / math.sqrt(rho2) - c / math.sqrt(rho2 + L * L / 4))
        scale = max(abs(c) / math.sqrt(rho2 + sd * sd), lap)
        es = budgets(lap, scale, tier == "T") + [lap * m for m in (2.0, 3.0, 2.5, 7.3)]
        for E in uniq(es):
            s = sep(direction, sd, a, b)
            nev += 1
            frac = (E / lap) % 1.0 if lap > 0 else 0.5
            extreme = E < TINY * scale or min(frac, 1 - frac) < TINY * 16
            try:
                t = pot.displacement(vel, s, 1.0, charge, E)
            except Exception as e:
                fails.append(("totality-extreme" if extreme else "totality",
                              "cbound k=%r L=%r charge=%r direction=%d separation=%r budget=%r raised %r"
                              % (k, L, charge, direction, sep(direction, sd, a, b), E, e)))
                continue
            if not isinstance(t, float) or t != t or t == INF:
                fails.append(("totality-extreme" if extreme else "totality",
                              "cbound k=%r L=%r charge=%r direction=%d separation=%r budget=%r returned %r"
                              % (k, L, charge, direction, sep(direction, sd, a, b), E, t)))
                continue
            if t < -1e-12 * L:
                fails.append(("negative", "cbound separation=%r budget=%r: displacement %r < 0"
                              % (sep(direction, sd, a, b), E, t)))
                continue
            if extreme or min(frac, 1 - frac) < 1e-6:
                continue
            D = t * speed
            u, um = physics.uphill_periodic_1overr(c, sd, rho2, D, L)
            tol = 1e-9 * E + 1e-11 * max(um, scale)
            sigs.add(("cbound", charge > 0, sd > 0, D > L, D > abs(sd)))
            if abs(u - E) > tol:
                fails.append(("uphill-identity", "periodic Coulomb bound k=%r L=%r charge=%r direction=%d speed=%r "
                              "separation=%r budget=%r: returned time %r; energy accumulated uphill through the "
                              "periodic images along that path is %r (error %.3e, tolerance %.3e)"
                              % (k, L, charge, direction, speed, sep(direction, sd, a, b), E, t, u, abs(u - E), tol)))
    import jellyfysh.setting as setting
    setting.reset()
    return (frozenset(sigs), nev), fails


def check_hard(case):
    """case = ("hard", kind, params, velocity, [separation...])"""
    _, kind, params, vel, seps = case
    init_setting((20.0, 20.0), cubic=True)
    fails = []
    sigs = set()
    nev = 0
    if kind == "sphere":
        from jellyfysh.potential.hard_sphere_potential import HardSpherePotential
        pot = HardSpherePotential(radius=params[0])
        sigma = 2 * params[0]
    else:
        from jellyfysh.potential.hard_dipole_potential import HardDipolePotential
        pot = HardDipolePotential(minimum_separation=params[0], maximum_separation=params[1])
    vv = math.sqrt(sum(x * x for x in vel))
    for s in seps:
        r = math.sqrt(sum(x * x for x in s))
        nev += 1
        if kind == "sphere":
            if r < sigma:
                continue
            want = physics.first_time_at_distance(vel, s, sigma)
            approaching = sum(a * b for a, b in zip(vel, s)) >= 0
            if want is not None and -1e-9 <= want < 0 and approaching:
                want = 0.0  # already touching (within rounding) and approaching: contact now
            if want is None or not approaching or want < 0:
                want = INF
        else:
            if not (params[0] <= r <= params[1]):
                continue
            approaching = sum(a * b for a, b in zip(vel, s)) >= 0
            want = physics.first_time_at_distance(vel, s, params[0]) if approaching else None
            if want is not None and -1e-9 <= want < 0:
                want = 0.0
            if want is None or want < 0:
                want = physics.first_time_at_distance(vel, s, params[1], largest=True)
                if want is None:
                    continue  # numerically outside the maximal bond length: not an admissible separation
                want = max(want, 0.0)
        try:
            t = pot.displacement(list(vel), list(s))
        except Exception as e:
            fails.append(("totality", "hard %s %r velocity=%r separation=%r raised %r" % (kind, params, vel, s, e)))
            continue
        sigs.add((kind, want == INF, approaching))
        if want == INF or t == INF:
            if want != t:
                # grazing contact: discriminant ~ 0
                graze = physics.first_time_at_distance(vel, s, (sigma if kind == "sphere" else params[0]) * (1 + 1e-9))
                if (want == INF) != (graze is None or graze < 0) or True:
                    disc_small = True
                    try:
                        from decimal import Decimal
                        vs = sum(Decimal(a) * Decimal(b) for a, b in zip(vel, s))
                        vvd = sum(Decimal(a) * Decimal(a) for a in vel)
                        ss = sum(Decimal(a) * Decimal(a) for a in s)
                        R = Decimal(sigma if kind == "sphere" else params[0])
                        disc = vs * vs - vvd * (ss - R * R)
                        disc_small = abs(disc) < Decimal(1e-12) * vvd * ss
                    except Exception:
                        pass
                    if not disc_small:
                        fails.append(("contact-time", "hard %s %r velocity=%r separation=%r: returned %r, first "
                                      "contact at %r" % (kind, params, vel, s, t, want)))
            continue
        if kind == "dipole" and approaching and t <= 1e-9 and abs(r - params[0]) <= 1e-9 * params[0]:
            continue  # touching the minimal separation: a contact at time 0 is a first contact (grazing included)
        if t < -1e-12 or abs(t - want) > 1e-9 * max(1.0, abs(want)) / max(vv, 1e-300):
            fails.append(("contact-time", "hard %s %r velocity=%r separation=%r: returned time %r, first contact / "
                          "maximal bond length at %r" % (kind, params, vel, s, t, want)))
    import jellyfysh.setting as setting
    setting.reset()
    return (frozenset(sigs), nev), fails


def check_speed(case):
    """case = ("speed", spec, L, charge, direction, separation, E): returned time scales as 1 / speed"""
    _, spec, L, charge, direction, s, E = case
    init_setting((L, L, L), cubic=True)
    pot = make_potential(spec)
    fails = []
    res = []
    for speed in (0.3, 1.0, 7.0):
        vel = [0.0, 0.0, 0.0]
        vel[direction] = speed
        args = (vel, list(s), 1.0, charge, E) if spec[0] in ("invpow", "cbound") else (vel, list(s), E)
        try:
            res.append(pot.displacement(*args) * speed)
        except Exception as e:
            res.append(repr(e))
    if any(isinstance(x, str) for x in res):
        if not all(isinstance(x, str) for x in res):
            fails.append(("speed-scaling", "%r separation=%r budget=%r: results for speeds 0.3/1/7: %r"
                          % (spec, s, E, res)))
    else:
        ref = res[1]
        for x in res:
            if x != ref and not (abs(x - ref) <= 4 * math.ulp(abs(ref)) if ref != INF else False):
                fails.append(("speed-scaling", "%r separation=%r budget=%r: distance = time * speed differs between "
                              "speeds 0.3/1/7: %r" % (spec, s, E, res)))
                break
    import jellyfysh.setting as setting
    setting.reset()
    return (frozenset([("speed", spec[0])]), 3), fails


DISPATCH = {"open": check_open, "cbound": check_cbound, "hard": check_hard, "speed": check_speed}


def check_case(case):
    return DISPATCH[case[0]](case)


def sd_lattice(rho, req, L, thorough):
    vals = []
    for c in (0.0,):
        vals += around(c, 5)
    grid = [-0.45, -0.3, -0.2, -0.1, -0.05, -0.01, 0.01, 0.05, 0.1, 0.2, 0.3, 0.45]
    if thorough:
        grid += [-0.4, -0.25, -0.15, -0.02, 0.02, 0.15, 0.25, 0.4, 1e-6, -1e-6]
        grid += [(-0.5 + (i + 0.5) / 24.0) for i in range(24)]
    vals += [g * L for g in grid]
    if req is not None and req > rho:
        w = math.sqrt(req * req - rho * rho)
        for c in (w, -w):
            vals += around(c, 4)
        vals += [0.5 * w, -0.5 * w, 1.5 * w, -1.5 * w, 3 * w, -3 * w]
    if req is not None:
        vals += [req, -req, 2 * req, -2 * req]
    return uniq(vals)


def rho_lattice(req, L, thorough):
    vals = [0.02 * L, 0.1 * L, 0.3 * L]
    if thorough:
        vals += [0.005 * L, 0.05 * L, 0.2 * L, 0.45 * L]
        vals += [(0.01 + 0.06 * i) * L for i in range(8)]
    if req is not None:
        vals += around(req, 5) + [0.5 * req, 0.9 * req, 1.1 * req, 2 * req]
        if thorough:
            vals += [req * (1 + x) for x in (1e-12, -1e-12, 1e-9, -1e-9)]
    return uniq([v for v in vals if v > 0])


def cases(ctx):
    T = "T" if ctx.thorough else "Q"
    potentials = [(("invpow", 1.0, 1.3), (1.0, -1.0, 0.5), 1.0), (("invpow", 2.0, 0.3), (1.0, -1.0), 1.0),
                  (("invpow", 6.0, 1e-6), (1.0, -1.0), 1.0), (("invpow", 12.0, 1.0), (1.0,), 2.5),
                  (("invpow", 1.0, -2.0), (1.0, -0.5), 10.0),
                  (("lj", 0.62, 0.3), (1.0,), 1.0), (("lj", 0.6217012, 3.165492), (1.0,), 10.0),
                  (("even", 0.1, 2, 200.0), (1.0,), 1.0), (("even", 0.15, 4, 3000.0), (1.0,), 1.0),
                  (("even", 1.012, 2, 529.581), (1.0,), 10.0)]
    for spec, charges, L in potentials:
        req = radial(spec, 1.0)[2]
        for charge in charges:
            for direction in (0, 1, 2):
                yield ("open", spec, L, charge, direction, 0.0, 0.0, [0.3 * L, -0.3 * L, 0.05 * L], 1.0, T)
            for rho in rho_lattice(req, L, ctx.thorough):
                for phi in (0.0, 0.7):
                    for direction in (0, 1, 2):
                        if not ctx.thorough and phi == 0.7 and direction != 1:
                            continue
                        yield ("open", spec, L, charge, direction, rho, phi, sd_lattice(rho, req, L, ctx.thorough),
                               1.0, T)
    # two-dimensional systems (the vector helpers must not assume three components)
    for spec, charges, L in potentials[:3] + potentials[5:6] + potentials[7:8]:
        req = radial(spec, 1.0)[2]
        for charge in charges[:2]:
            for rho in rho_lattice(req, L, False):
                for direction in (0, 1):
                    yield ("open", spec, L, charge, direction, rho, 0.0, sd_lattice(rho, req, L, False), 1.0, T, 2)
    for k in (1.5837, 1.6, 531.2):
        for L in (1.0, 2.5, 10.0):
            for charge in (1.0, -1.0, 0.5):
                for rho in (0.0, 0.02 * L, 0.1 * L, 0.3 * L, 0.6 * L):
                    for phi in (0.0, 0.7):
                        for direction in (0, 1, 2):
                            if rho == 0.0 and phi != 0.0:
                                continue
                            if not ctx.thorough and (phi == 0.7 and direction != 2 or k == 1.6):
                                continue
                            sds = uniq(around(0.0, 3) + around(L / 2, 0) + around(-L / 2, 0) +
                                       [math.nextafter(L / 2, 0), math.nextafter(-L / 2, 0)] +
                                       [g * L for g in (-0.45, -0.3, -0.1, -0.01, 0.01, 0.1, 0.3, 0.45)])
                            yield ("cbound", k, L, charge, direction, rho, phi, sds, 1.0, T)
    # hard cores in two dimensions, arbitrary velocities
    vels = [(1.0, 0.0), (0.0, 2.0), (0.9396926207859084, 0.3420201433256687), (-0.6, 0.8), (0.3, -0.1)]
    R = 0.476190476190476
    seps = []
    for r in (2 * R, 2 * R * (1 + 1e-12), 1.0, 1.5, 3.0, 7.0):
        for ang in [i * math.pi / 8 for i in range(16)]:
            seps.append((r * math.cos(ang), r * math.sin(ang)))
    for v in vels:
        yield ("hard", "sphere", (R,), v, seps)
    dmin, dmax = 0.952380952380952, 1.047619047619048
    seps = []
    for r in (dmin, dmin * (1 + 1e-12), 0.97, 1.0, 1.03, dmax * (1 - 1e-12), dmax):
        for ang in [i * math.pi / 12 for i in range(24)]:
            seps.append((r * math.cos(ang), r * math.sin(ang)))
    for v in vels:
        yield ("hard", "dipole", (dmin, dmax), v, seps)
    for spec, charges, L in potentials[:3] + potentials[5:8]:
        for s in ((0.2 * L, 0.1 * L, 0.05 * L), (-0.2 * L, 0.1 * L, 0.05 * L), (0.05 * L, 0.02 * L, 0.0)):
            for E in (1e-3, 0.5, 20.0):
                for direction in (0, 1, 2):
                    yield ("speed", spec, L, charges[0], direction, s, E)
    for L in (1.0, 10.0):
        for s in ((0.2 * L, 0.1 * L, 0.05 * L), (-0.2 * L, 0.1 * L, 0.05 * L)):
            for E in (1e-3, 0.5, 20.0):
                yield ("speed", ("cbound", 1.5837), L, 1.0, 0, s, E)


def run(ctx):
    from ..core import Result
    res = Result()
    all_cases = list(cases(ctx))
    n, sigs, fails = par.run_cases(check_case, all_cases, ctx.cores, chunk=6, max_fail=40)
    evals = 0
    regimes = set()
    for s, k in sigs:
        evals += k
        regimes |= set(s)
    for key, case, msg in fails:
        res.add(key, {"case": enc(case)}, msg)
    res.coverage = {
        "evaluations": evals, "case_bundles": n, "distinct_nontrivial": len(regimes),
        "rule": "potentials {1/r^p p=1,2,6,12 both signs; Lennard-Jones x2; displaced even power p=2,4 x3; periodic "
                "Coulomb bound (C) k=1.5837/1.6/531.2, L=1/2.5/10; hard sphere; hard dipole} x rho lattice (incl. the "
                "tangent condition rho = r_eq +- 0..5 ulp) x s_d lattice (0 +- 0..5 ulp, crossings of r = r_eq +- 0..4 "
                "ulp, +-L/2, regular grid) x directions x budgets {hill +- 0..4 ulp, hill(1 +- 1e-9), geometric grid, "
                "lap multiples, 5e-324, 1e-300}; one evaluation = one real displacement() call compared with the "
                "closed-form uphill integral; distinct_nontrivial = distinct (potential, sign, finite/infinite, "
                "behind/in front, inside/outside the minimum sphere, passes the target) regimes",
        "samples": [enc(all_cases[0])[:8], enc(("cbound", 1.5837, 10.0, 1.0, 0, 1.0, 0.0, [0.3, -4.5], 1.0))],
        "exhaustive": True,
    }
    res.assumptions = ["identity tolerance 1e-9 E + 1e-11 max|U| (the code forms U_now + E, so the budget is resolved "
                       "to eps |U|); budgets within 1e-6 of the hill height are excluded from the finite/infinite "
                       "decision", "budgets below 2^-40 |U| or within 2^-40 |U| of the hill height are 'extreme': failures "
                       "there are the recorded known finding (totality-extreme)"]
    return res


def replay(ctx, case):
    c = dec(case["case"])
    _, fails = par.guarded(check_case)(c)
    return sorted(set(k for k, _ in fails)) or None
