"""C01 -- samples follow the Boltzmann distribution of the configured model (decided as: every event handler realises
the factorised-Metropolis event rate of an independently coded model energy; see DESIGN.md §5/C01 for why a direct
distributional decision is outside bounded exhaustive exploration and what the trusted theorem is).

(A) Kernel identity, handler by handler (engine C on the real handler objects, all draws scripted):
    for a real event handler and an in-state, the candidate time is a function f(E_1..E_m) of the m energy budgets it
    draws.  With the other budgets at infinity, a_p(t) = inf{E_p : f > t} (bisection) is the energy clock p has
    consumed at time t; the clocks must combine as a minimum (checked on a grid), so the proposal rate is
    lambda(t) = sum_p da_p/dt.  Forcing the event to happen at time t and bisecting over the confirmation draw gives the
    acceptance probability acc(t).  Identity:   lambda(t) * acc(t) == max(0, q_F(t)),
    q_F = directional derivative of the *independent* factor energy (jfv/physics.py, own Ewald sum) at the
    configuration advanced to t.  This holds for direct inversion (acc = 1), for thinning with any bound (1/r, summed,
    piecewise constant, cell bounds), for leaf and root (whole-molecule) motion, and is implementation-agnostic (one
    shared clock with the summed rate or one clock per pair both satisfy it; a shared budget for several pairs does not).
(B) Run level (engine A): end-of-chain resampling (every randint answer maps to that unit, direction cycles / rotates,
    speed kept), hard-core exclusion and bond window in every committed state of hard-disk runs, and every candidate of
    an interaction tagger draws its own fresh budget(s).
The remaining links of the chain are the checks C02 (inversion), C03 (rates), C04 (domination), C05 (lifting),
C06 (earliest event), C08/C09/C10 (the right factors are pending), C18 (cell-veto proposal).
"""
import copy
import math

from .. import par, physics, handlers as hx, specs as specmod
from ..env import init_setting
from ..fl import dec, enc
from ..core import HarnessError
from ..seam import Seam
from . import _enva
from .c03 import ewald_minus_dU_dx

BIG = 1e300
ONE_BELOW = 1.0 - 2.0 ** -53
Q = "q"


class VScript:
    """expovariate -> successive entries of Es; k-th uniform -> us[k] (last repeated)."""

    def __init__(self, Es, us):
        self.Es, self.us = list(Es), list(us)
        self.ne = self.nu = 0

    def __call__(self, kind, args, index):
        if kind == "expovariate":
            e = self.Es[self.ne] if self.ne < len(self.Es) else self.Es[-1]
            self.ne += 1
            return e
        if kind in ("uniform", "random"):
            u = self.us[min(self.nu, len(self.us) - 1)]
            self.nu += 1
            return u if kind == "random" else args[0] + (args[1] - args[0]) * u
        if kind == "choice":
            return 0
        if kind == "randint":
            return args[0]
        raise HarnessError("unscripted draw random.%s" % kind)


class Probe:
    def __init__(self, handler, in_state, out_args=None):
        self.handler, self.in_state, self.out_args = handler, in_state, out_args
        self.t0 = None
        for r in in_state:
            for l in hx.leaves(r):
                if l.value.time_stamp is not None:
                    self.t0 = l.value.time_stamp.quotient + l.value.time_stamp.remainder
        self.before = hx.moving_leaves(in_state)
        self.calls = 0

    def time(self, Es):
        st = copy.deepcopy(self.in_state)
        sc = VScript(Es, [0.5])
        with Seam(sc):
            ret = self.handler.send_event_time(st)
        self.calls += 1
        t = ret[0] if isinstance(ret, tuple) else ret
        return (t.quotient + t.remainder) - self.t0, sc.ne

    def event(self, Es, u):
        st = copy.deepcopy(self.in_state)
        sc = VScript(Es, [u, 0.5, 0.5])
        with Seam(sc):
            ret = self.handler.send_event_time(st)
            sc.nu = 0
            args = self.out_args(ret, st) if self.out_args else ()
            out = self.handler.send_out_state(*args)
        self.calls += 1
        return hx.moving_leaves(out) != self.before, sc.nu, out


def clock(probe, m, p, t):
    """a_p(t): smallest budget of clock p (others infinite) for which the candidate time exceeds t."""
    def f(e):
        Es = [BIG] * m
        Es[p] = e
        return probe.time(Es)[0]
    if f(1e-300) > t:
        return 0.0
    hi = 1e-30
    while f(hi) <= t:
        hi *= 1e3
        if hi > 1e200:
            return math.inf
    lo = hi / 1e3 if hi > 1e-30 else 1e-300
    for _ in range(200):
        mid = math.sqrt(lo * hi) if hi / lo > 4 else 0.5 * (lo + hi)
        if mid <= lo or mid >= hi:
            break
        if f(mid) > t:
            hi = mid
        else:
            lo = mid
        if hi - lo <= 1e-13 * hi:
            break
    return hi


def kernel_identity(desc, handler, in_state, q_model, out_args=None, heuristic_bound=False, t_max=None):
    """-> (n evaluations, regime set, fails)"""
    probe = Probe(handler, in_state, out_args)
    fails = []
    regimes = set()
    _, m = probe.time([1.0] * 8)
    if m == 0:
        return probe.calls, {("deterministic",)}, []
    # reference times from common budgets
    ts = []
    for e in (0.05, 0.5, 2.5):
        t, _ = probe.time([e] * m)
        if 0 < t < math.inf and (t_max is None or t < 0.98 * t_max):
            ts.append(t)
    # minimum structure: f(E) == min_p f(E_p, rest infinite)
    grid = [0.1, 1.0, 4.0]
    if m > 1:
        import itertools
        combos = list(itertools.product(grid, repeat=m)) if m <= 4 else [tuple(grid[(i + j) % 3] for j in range(m))
                                                                           for i in range(9)]
        for Es in combos[:81]:
            full, _ = probe.time(list(Es))
            singles = []
            for p in range(m):
                v = [BIG] * m
                v[p] = Es[p]
                singles.append(probe.time(v)[0])
            if t_max is not None:
                singles = [min(s, t_max) for s in singles]
            if abs(full - min(singles)) > 1e-12 * max(1.0, abs(full)):
                fails.append(("clock-structure", "%s: candidate time for budgets %r is %r, but the clocks taken one at "
                              "a time give %r (not a minimum of independent clocks)" % (desc, Es, full, singles)))
                return probe.calls, regimes, fails
    for t in ts:
        h = 1e-4 * t
        lam = 0.0
        a_t = []
        for p in range(m):
            ap, am, a0 = clock(probe, m, p, t + h), clock(probe, m, p, t - h), clock(probe, m, p, t)
            a_t.append(a0)
            if math.isinf(ap) or math.isinf(am):
                lam = math.inf
                break
            lam += (ap - am) / (2 * h)
        if math.isinf(lam):
            continue
        q = q_model(t)
        qpos = max(0.0, q)
        scale = max(abs(q), lam, 1e-12)
        # acceptance at an event forced to happen at time t
        binding = [p for p in range(m) if 0.0 < a_t[p] < math.inf]
        acc = None
        if binding and lam > 1e-9 * scale:
            p = binding[0]
            Es = [BIG] * m
            Es[p] = a_t[p] * (1 + 1e-12)
            tt, _ = probe.time(Es)
            if abs(tt - t) <= 1e-6 * t:
                moved0, nu, _ = probe.event(Es, 0.0)
                if nu == 0:
                    acc = 1.0 if moved0 else 0.0
                else:
                    moved1, _, _ = probe.event(Es, ONE_BELOW)
                    if moved1:
                        acc = 1.0
                    elif not moved0:
                        acc = 0.0
                    else:
                        lo, hi = 0.0, ONE_BELOW
                        for _ in range(48):
                            mid = 0.5 * (lo + hi)
                            if probe.event(Es, mid)[0]:
                                lo = mid
                            else:
                                hi = mid
                        acc = hi
        if lam <= 1e-9 * scale:
            regimes.add(("no-proposal", q > 0))
            if qpos > 1e-6 * scale and qpos > 1e-9:
                fails.append(("rate-missing", "%s at t=%.6g: the model rate is %r but the handler proposes no event "
                              "(proposal rate %r)" % (desc, t, q, lam)))
            continue
        if acc is None:
            continue
        eff = lam * acc
        regimes.add(("thinned" if 0 < acc < 1 else ("accept-all" if acc == 1.0 else "reject-all"), q > 0, m))
        tol = 2e-4 * scale
        if acc == 1.0 and qpos > lam * (1 + 1e-6) + tol:
            if heuristic_bound:
                regimes.add(("heuristic-bound-exceeded",))
                continue
            fails.append(("bound-exceeded", "%s at t=%.6g: proposal rate %r is below the model rate %r" % (desc, t, lam, q)))
            continue
        if abs(eff - qpos) > tol:
            fails.append(("kernel-identity", "%s at t=%.6g (clocks: %d): proposal rate %.9g x acceptance %.9g = %.9g, "
                          "the factorised-Metropolis rate max(0, q_F) of the model energy is %.9g"
                          % (desc, t, m, lam, acc, eff, qpos)))
    return probe.calls, regimes, fails


# ---- model rates -----------------------------------------------------------------------------------------------------
def wrap(x, L):
    return (x + L / 2) % L - L / 2


def pair_rate_radial(dU, pa, va, pb, L, t):
    """d/dt U(|s(t)|), s(t) = s(0) - v t with s(0) the nearest-image separation at the start of the leg:
    U'(r) * (s . (-v)) / r.  (Handlers with non-periodic pair potentials follow the image chosen when the candidate
    is computed; candidates are recomputed at every event of the chain.)"""
    s = [wrap(pb[d] - pa[d], L) - va[d] * t for d in range(3)]
    r = math.sqrt(sum(x * x for x in s))
    return -dU(r) * sum(va[d] * s[d] for d in range(3)) / r


def pair_rate_coulomb(ca, cb, pa, va, pb, L, t, k=1.0):
    s = [wrap(pb[d] - (pa[d] + va[d] * t), L) for d in range(3)]
    d = next(i for i, v in enumerate(va) if v != 0.0)
    perm = (s[d], s[(d + 1) % 3], s[(d + 2) % 3])
    return k * ca * cb * va[d] * ewald_minus_dU_dx(perm, L)


# ---- cases -----------------------------------------------------------------------------------------------------------
def _coulomb_pots(L, kt=1.0, kb=None):
    from .c04 import _pots_noreset
    return _pots_noreset(L, kt, kb)


def check_handler(case):
    import jellyfysh.setting as setting
    kind = case[1]
    if kind == "lifting":
        # the lifting step of the kernel: flow balance of the tables the real molecule handlers build (C05's oracle)
        from .c05 import check_pair_handler
        (sig, n), fails = check_pair_handler(("pairhandler",) + tuple(case[2:]))
        return (("lifting", frozenset([tuple(map(str, sig))])), n), fails
    if kind == "cellveto":
        # cell-veto proposals: total rate, target cell, confirmation bound (C18's oracle)
        from .c18 import check_cell_veto
        (sig, n), fails = check_cell_veto(("veto",) + tuple(case[2:]))
        return (("cellveto", frozenset([tuple(map(str, sig))])), n), fails
    fn = {"direct": case_direct, "cbound": case_cbound, "cellbound": case_cellbound, "cellbound_composite": case_cellbound_composite, "summed": case_summed, "root_summed": case_root_summed,
          "root_direct": case_root_direct, "piecewise_lj": case_piecewise_lj, "bending": case_bending}[kind]
    try:
        n, regimes, fails = fn(case)
    finally:
        setting.reset()
    return ((kind, frozenset(regimes)), n), fails


GEOS = [((0.22, 0.11, -0.07), 0), ((-0.2, 0.13, 0.09), 0), ((0.1, 0.25, 0.05), 1), ((0.12, -0.08, -0.3), 2),
        ((0.31, 0.02, 0.04), 0), ((0.05, -0.24, 0.2), 1)]


def case_direct(case):
    """("handler", "direct", potential spec, charge product sign)"""
    from .c02 import make_potential
    from jellyfysh.event_handler.two_leaf_unit_event_handler import TwoLeafUnitEventHandler
    _, _, spec, cb = case
    L = 1.0
    init_setting((L, L, L), cubic=True)
    pot = make_potential(spec)
    charged = spec[0] == "invpow"
    handler = TwoLeafUnitEventHandler(potential=pot, charge=Q if charged else None)
    if spec[0] == "invpow":
        dU = physics.du_inverse_power(spec[2] * cb, spec[1])
    elif spec[0] == "lj":
        dU = physics.du_lennard_jones(spec[1], spec[2])
    else:
        dU = physics.du_displaced_even_power(spec[3], spec[1], spec[2])
    n, regimes, fails = 0, set(), []
    for sep, d in GEOS:
        scale = 1.0 if spec[0] != "even" else 0.6
        vel = [0.0, 0.0, 0.0]
        vel[d] = 1.3
        pa = [0.5, 0.5, 0.5]
        pb = [pa[i] + sep[i] * scale for i in range(3)]
        st = [hx.atom_branch(0, pa, {Q: 1.0}, vel, (1.0, 0.25)), hx.atom_branch(1, pb, {Q: cb})]
        k, rg, fl = kernel_identity("TwoLeafUnitEventHandler %r charge product %+g separation %r direction %d"
                                    % (spec, cb, sep, d), handler, st,
                                    lambda t: pair_rate_radial(dU, pa, vel, pb, L, t))
        n += k
        regimes |= rg
        fails += fl
    return n, regimes, fails


def case_cbound(case):
    """("handler", "cbound", L, kt, kb, cb)"""
    from jellyfysh.event_handler.two_leaf_unit_bounding_potential_event_handler import \
        TwoLeafUnitBoundingPotentialEventHandler
    _, _, L, kt, kb, cb = case[:6]
    restored = len(case) > 6 and case[6]
    init_setting((L, L, L), cubic=True)
    true, bound = _coulomb_pots(L, kt, kb)
    handler = TwoLeafUnitBoundingPotentialEventHandler(potential=true, bounding_potential=bound, charge=Q)
    if restored:
        import dill
        handler = dill.loads(dill.dumps(handler))  # the handler of a resumed run
    n, regimes, fails = 0, set(), []
    for sep, d in GEOS:
        vel = [0.0, 0.0, 0.0]
        vel[d] = 1.0
        pa = [0.5 * L] * 3
        pb = [(pa[i] + sep[i] * L) % L for i in range(3)]
        st = [hx.atom_branch(0, pa, {Q: 1.0}, vel, (1.0, 0.25)), hx.atom_branch(1, pb, {Q: cb})]
        k, rg, fl = kernel_identity("TwoLeafUnitBoundingPotentialEventHandler (periodic Coulomb, 1/r bound%s) L=%r charge "
                                    "product %+g separation %r*L direction %d"
                                    % (", restored from a dump" if restored else "", L, cb, sep, d), handler, st,
                                    lambda t: pair_rate_coulomb(1.0, cb, pa, vel, pb, L, t, kt))
        n += k
        regimes |= rg
        fails += fl
    return n, regimes, fails


def case_cellbound(case):
    """("handler", "cellbound", cells per side, charge of the target, restored): the cell-bounded pair handler of the
    shipped cell_bounded.ini files (periodic Coulomb, CellBoundingPotential with the real InnerPointEstimator on the real
    CuboidPeriodicCells).  The proposal rate is constant per cell separation and only valid while the active unit is in
    its cell (a cell-boundary event ends the leg), so the identity is required for t below the time to the cell face."""
    import random
    from jellyfysh.event_handler.two_leaf_unit_cell_bounding_potential_event_handler import \
        TwoLeafUnitCellBoundingPotentialEventHandler
    from jellyfysh.potential.cell_bounding_potential import CellBoundingPotential
    from jellyfysh.estimator.inner_point_estimator import InnerPointEstimator
    from jellyfysh.activator.internal_state.cell_occupancy.cells.cuboid_periodic_cells import CuboidPeriodicCells
    _, _, counts, cb, restored = case
    L = 1.0
    init_setting((L, L, L), cubic=True)
    true, _ = _coulomb_pots(L, 1.0, None)
    cells = CuboidPeriodicCells(cells_per_side=list(counts))
    random.seed(12345)
    est = InnerPointEstimator(potential=true, prefactor=1.5, target_charge=1.0)
    handler = TwoLeafUnitCellBoundingPotentialEventHandler(potential=true, bounding_potential=CellBoundingPotential(est),
                                                           charge=Q)
    handler.initialize(cells)
    if restored:
        import dill
        handler = dill.loads(dill.dumps(handler))
    side = [L / c for c in counts]
    n, regimes, fails = 0, set(), []
    # active unit a little above the lower face of cell (0, 0, 0) in the direction of motion; targets in cells that
    # are not nearby (two or more cells away in y or z), at several places inside their cell
    for d in range(3):
        vel = [0.0, 0.0, 0.0]
        vel[d] = 1.0
        pa = [0.45 * side[i] for i in range(3)]
        pa[d] = 0.04 * side[d]
        t_max = (side[d] - pa[d]) / 1.0
        for tc, frac in (((0, 2, 0), (0.5, 0.5, 0.5)), ((1, 2, 3), (0.1, 0.9, 0.2)), ((0, 0, 3), (0.8, 0.3, 0.05)),
                         ((2, 3, 5), (0.95, 0.5, 0.5)), ((1, 0, 2), (0.3, 0.7, 0.6))):
            pb = [(tc[i] + frac[i]) * side[i] for i in range(3)]
            st = [hx.atom_branch(0, pa, {Q: 1.0}, vel, (1.0, 0.25)), hx.atom_branch(1, pb, {Q: cb})]
            k, rg, fl = kernel_identity("TwoLeafUnitCellBoundingPotentialEventHandler (periodic Coulomb, inner-point "
                                        "estimator, cells %r%s) target charge %+g in cell %r direction %d"
                                        % (tuple(counts), ", restored from a dump" if restored else "", cb, tc, d),
                                        handler, st, lambda t: pair_rate_coulomb(1.0, cb, pa, vel, pb, L, t, 1.0),
                                        heuristic_bound=True, t_max=t_max)
            n += k
            regimes |= rg
            fails += fl
    return n, regimes, fails


def case_cellbound_composite(case):
    """("handler", "cellbound_composite", cells per side, lifting): the cell-bounded dipole-dipole handler of the shipped
    dipoles/cell_bounded.ini (real DipoleMonteCarloEstimator on the real cells of the composite objects' positions)."""
    import importlib
    import random
    from jellyfysh.event_handler.two_composite_object_cell_bounding_potential_event_handler import \
        TwoCompositeObjectCellBoundingPotentialEventHandler as H
    from jellyfysh.potential.cell_bounding_potential import CellBoundingPotential
    from jellyfysh.estimator.dipole_monte_carlo_estimator import DipoleMonteCarloEstimator
    from jellyfysh.activator.internal_state.cell_occupancy.cells.cuboid_periodic_cells import CuboidPeriodicCells
    _, _, counts, lifting = case
    L, nl = 1.0, 2
    init_setting((L, L, L), cubic=True, roots=2, per_root=nl)
    true, _ = _coulomb_pots(L, 1.0, None)
    cells = CuboidPeriodicCells(cells_per_side=list(counts))
    random.seed(4711)
    est = DipoleMonteCarloEstimator(potential=true, dipole_separation=0.05, prefactor=2.0, number_trials=150)
    mod, cls = lifting.split(".")
    handler = H(potential=true, bounding_potential=CellBoundingPotential(est),
                lifting=getattr(importlib.import_module("jellyfysh.lifting." + mod), cls)(), charge=Q)
    handler.initialize(cells)
    side = [L / c for c in counts]
    n, regimes, fails = 0, set(), []
    for off, d in (((0.1, 0.45, 0.05), 0), ((0.2, 0.1, 0.4), 1), ((-0.25, -0.5, 0.3), 2), ((0.05, 0.41, -0.3), 1)):
        for active in range(nl):
            vel = [0.0, 0.0, 0.0]
            vel[d] = 1.0
            a, b, pa, pb, ch = _molecules(L, nl, off, active, vel)
            root = a.value.position
            # the composite object's velocity is vel / nl: time until its position leaves its cell
            t_max = (side[d] - root[d] % side[d]) * nl

            def q(t, active=active, pa=pa, pb=pb, ch=ch, vel=vel):
                return sum(pair_rate_coulomb(ch[active], ch[j], pa[active], vel, pb[j], L, t, 1.0) for j in range(nl))
            k, rg, fl = kernel_identity("TwoCompositeObjectCellBoundingPotentialEventHandler (cells %r, %s) offset %r "
                                        "direction %d active leaf %d" % (tuple(counts), cls, off, d, active), handler,
                                        [a, b], q, heuristic_bound=True, t_max=t_max)
            n += k
            regimes |= rg
            fails += fl
    return n, regimes, fails


def _molecules(L, nl, off, active, vel, root_active=False):
    shape = [(0.0, 0.0, 0.0), (0.03, 0.012, -0.02), (-0.02, 0.03, 0.011)][:nl]
    ch = [1.0, -1.0] if nl == 2 else [0.41, -0.82, 0.41]
    c1 = [0.3 * L] * 3
    c2 = [(c1[i] + off[i] * L) % L for i in range(3)]
    pa = [[c1[i] + sh[i] * L for i in range(3)] for sh in shape]
    pb = [[(c2[i] + sh[(i + 1) % 3] * L) % L for i in range(3)] for sh in shape]
    cd = [{Q: c} for c in ch]
    if root_active:
        from jellyfysh.base.time import Time
        a = hx.molecule_branch(0, pa, cd, 0, vel, (1.0, 0.5), L)
        a.value.velocity = list(vel)
        for ch_ in a.children:
            ch_.value.velocity = list(vel)
            ch_.value.time_stamp = Time(1.0, 0.5)
    else:
        a = hx.molecule_branch(0, pa, cd, active, vel, (1.0, 0.5), L)
    b = hx.molecule_branch(1, pb, cd)
    return a, b, pa, pb, ch


def case_summed(case):
    """("handler", "summed", L, kt, kb, n leaves, lifting)"""
    import importlib
    from jellyfysh.event_handler.two_composite_object_summed_bounding_potential_event_handler import \
        TwoCompositeObjectSummedBoundingPotentialEventHandler as H
    _, _, L, kt, kb, nl, lifting = case
    init_setting((L, L, L), cubic=True, roots=2, per_root=nl)
    true, bound = _coulomb_pots(L, kt, kb)
    mod, cls = lifting.split(".")
    handler = H(potential=true, bounding_potential=bound,
                lifting=getattr(importlib.import_module("jellyfysh.lifting." + mod), cls)(), charge=Q)
    n, regimes, fails = 0, set(), []
    for off, d in GEOS[:4]:
        for active in range(nl):
            vel = [0.0, 0.0, 0.0]
            vel[d] = 1.0
            a, b, pa, pb, ch = _molecules(L, nl, off, active, vel)

            def q(t, active=active, pa=pa, pb=pb, ch=ch, vel=vel):
                return sum(pair_rate_coulomb(ch[active], ch[j], pa[active], vel, pb[j], L, t, kt) for j in range(nl))
            k, rg, fl = kernel_identity("TwoCompositeObjectSummedBoundingPotentialEventHandler L=%r %d-atom molecules "
                                        "offset %r*L direction %d active leaf %d" % (L, nl, off, d, active), handler,
                                        [a, b], q)
            n += k
            regimes |= rg
            fails += fl
    return n, regimes, fails


def case_root_summed(case):
    """("handler", "root_summed", L, n leaves)"""
    from jellyfysh.event_handler.root_unit_active_two_composite_object_summed_bounding_potential_event_handler import \
        RootUnitActiveTwoCompositeObjectSummedBoundingPotentialEventHandler as H
    _, _, L, nl = case
    init_setting((L, L, L), cubic=True, roots=2, per_root=nl)
    true, bound = _coulomb_pots(L, 1.0, None)
    handler = H(potential=true, bounding_potential=bound, charge=Q)
    n, regimes, fails = 0, set(), []
    for off, d in GEOS[:4]:
        vel = [0.0, 0.0, 0.0]
        vel[d] = 1.0
        a, b, pa, pb, ch = _molecules(L, nl, off, 0, vel, root_active=True)

        def q(t, pa=pa, pb=pb, ch=ch, vel=vel):
            return sum(pair_rate_coulomb(ch[i], ch[j], pa[i], vel, pb[j], L, t) for i in range(nl) for j in range(nl))

        def out_args(ret, st):
            # the mediator extracts the two root branches named by the handler
            return ([copy.deepcopy(x) for x in st],)
        k, rg, fl = kernel_identity("RootUnitActiveTwoCompositeObjectSummedBoundingPotentialEventHandler L=%r %d-atom "
                                    "molecules offset %r*L direction %d" % (L, nl, off, d), handler, [a, b], q, out_args)
        n += k
        regimes |= rg
        fails += fl
    return n, regimes, fails


def case_root_direct(case):
    """("handler", "root_direct")"""
    from jellyfysh.potential.inverse_power_potential import InversePowerPotential
    from jellyfysh.event_handler.root_unit_active_two_leaf_unit_event_handler import RootUnitActiveTwoLeafUnitEventHandler
    L = 1.0
    nl = 2
    init_setting((L, L, L), cubic=True, roots=2, per_root=nl)
    pot = InversePowerPotential(power=6.0, prefactor=1e-6)
    handler = RootUnitActiveTwoLeafUnitEventHandler(potential=pot)
    dU = physics.du_inverse_power(1e-6, 6.0)
    n, regimes, fails = 0, set(), []
    for off, d in [((0.1, 0.02, 0.03), 0), ((0.03, 0.12, -0.02), 1)]:
        vel = [0.0, 0.0, 0.0]
        vel[d] = 1.0
        a, b, pa, pb, ch = _molecules(L, nl, off, 0, vel, root_active=True)
        # in-state: the branch of one leaf of the moving object and one leaf of the other (as the factor file says)
        from jellyfysh.base.node import Node
        ia = Node(a.value, weight=1)
        ia.add_child(a.children[0])
        ib = Node(b.value, weight=1)
        ib.add_child(b.children[1])

        def out_args(ret, st, a=a, b=b):
            return ([copy.deepcopy(a), copy.deepcopy(b)],)
        k, rg, fl = kernel_identity("RootUnitActiveTwoLeafUnitEventHandler offset %r direction %d" % (off, d), handler,
                                    [ia, ib], lambda t, pa=pa, pb=pb, vel=vel: pair_rate_radial(dU, pa[0], vel, pb[1], L, t),
                                    out_args)
        n += k
        regimes |= rg
        fails += fl
    return n, regimes, fails


def case_piecewise_lj(case):
    """("handler", "piecewise_lj")"""
    from jellyfysh.potential.lennard_jones_potential import LennardJonesPotential
    from jellyfysh.event_handler.two_leaf_unit_event_handler_with_piecewise_constant_bounding_potential import \
        TwoLeafUnitEventHandlerWithPiecewiseConstantBoundingPotential as H
    L = 10.0
    init_setting((L, L, L), cubic=True)
    k_, sig = 0.6217012, 3.165492
    pot = LennardJonesPotential(prefactor=k_, characteristic_length=sig)
    md = 0.24353253124
    handler = H(potential=pot, offset=10.0, max_displacement=md)
    dU = physics.du_lennard_jones(k_, sig)
    n, regimes, fails = 0, set(), []
    for sep, d in [((3.3, 0.4, 0.2), 0), ((-3.0, 0.5, 0.1), 0), ((0.3, 3.4, -0.2), 1), ((0.2, -0.5, -3.1), 2),
                   ((2.0, 2.0, 1.8), 0)]:
        vel = [0.0, 0.0, 0.0]
        vel[d] = 1.0
        pa = [5.0, 5.0, 5.0]
        pb = [pa[i] + sep[i] for i in range(3)]
        st = [hx.atom_branch(0, pa, None, vel, (1.0, 0.25)), hx.atom_branch(1, pb, None)]
        kk, rg, fl = kernel_identity("TwoLeafUnitEventHandlerWithPiecewiseConstantBoundingPotential (Lennard-Jones) "
                                     "separation %r direction %d" % (sep, d), handler, st,
                                     lambda t, pa=pa, pb=pb, vel=vel: pair_rate_radial(dU, pa, vel, pb, L, t),
                                     heuristic_bound=True, t_max=md)
        n += kk
        regimes |= rg
        fails += fl
    return n, regimes, fails


def case_bending(case):
    """("handler", "bending", lifting)"""
    import importlib
    from jellyfysh.potential.bending_potential import BendingPotential
    from jellyfysh.event_handler.fixed_separations_event_handler_with_piecewise_constant_bounding_potential import \
        FixedSeparationsEventHandlerWithPiecewiseConstantBoundingPotential as FS
    _, _, lifting = case
    L = 10.0
    init_setting((L, L, L), cubic=True, roots=1, per_root=3)
    phi0, kk = 1.9764, 75.9
    mod, cls = lifting.split(".")
    handler = FS(potential=BendingPotential(equilibrium_angle=phi0, prefactor=kk),
                 lifting=getattr(importlib.import_module("jellyfysh.lifting." + mod), cls)(), offset=10.0,
                 max_displacement=0.1, separations=[1, 0, 1, 2])

    def energy(p):
        a = [p[0][d] - p[1][d] for d in range(3)]
        b = [p[2][d] - p[1][d] for d in range(3)]
        c = sum(x * y for x, y in zip(a, b)) / math.sqrt(sum(x * x for x in a)) / math.sqrt(sum(x * x for x in b))
        return 0.5 * kk * (math.acos(c) - phi0) ** 2
    n, regimes, fails = 0, set(), []
    for (l1, l2), d in [(((0.9, 0.3, 0.1), (-0.4, 0.9, 0.2)), 0), (((1.0, 0.0, 0.2), (-0.2, 1.1, -0.3)), 1),
                        (((0.5, 0.8, 0.3), (0.6, -0.7, 0.4)), 2)]:
        rj = [5.0, 5.0, 5.0]
        pos = [[rj[i] + l1[i] for i in range(3)], rj, [rj[i] + l2[i] for i in range(3)]]
        for active in range(3):
            vel = [0.0, 0.0, 0.0]
            vel[d] = 1.0
            st = [hx.molecule_branch(0, pos, [None, None, None], active, vel, (1.0, 0.25), L)]

            def q(t, active=active, pos=pos, d=d):
                p = [list(x) for x in pos]
                p[active][d] += t
                p[active][d] += 1e-6
                ep = energy(p)
                p[active][d] -= 2e-6
                return (ep - energy(p)) / 2e-6
            k, rg, fl = kernel_identity("FixedSeparationsEventHandlerWithPiecewiseConstantBoundingPotential (bending) "
                                        "legs %r %r direction %d active %d" % (l1, l2, d, active), handler, st, q,
                                        heuristic_bound=True, t_max=0.1)
            n += k
            regimes |= rg
            fails += fl
    return n, regimes, fails


def cases(ctx):
    for spec in [("invpow", 1.0, 1.3), ("invpow", 2.0, 0.3), ("invpow", 6.0, 1e-6)]:
        for cb in (1.0, -1.0):
            yield ("handler", "direct", spec, cb)
    yield ("handler", "direct", ("lj", 0.62, 0.3), 1.0)
    yield ("handler", "direct", ("even", 0.1, 2, 200.0), 1.0)
    yield ("handler", "cbound", 1.0, 1.0, None, 1.0, True)
    for cb in (1.0, -1.0):
        yield ("handler", "cellbound", (3, 5, 7), cb, False)
    yield ("handler", "cellbound", (3, 5, 7), -1.0, True)
    for lifting in ("inside_first_lifting.InsideFirstLifting", "ratio_lifting.RatioLifting"):
        yield ("handler", "cellbound_composite", (3, 5, 7), lifting)
    for scheme in ("inside_first_lifting.InsideFirstLifting", "outside_first_lifting.OutsideFirstLifting",
                   "ratio_lifting.RatioLifting"):
        for nl in (2, 3):
            yield ("handler", "lifting", scheme, nl, 1)
            yield ("handler", "lifting", scheme, nl, 4)  # the same molecules across the periodic faces (seed C01-k)
    yield ("handler", "cellveto", "composite", (1.0, 2.0), (5, 4), 1)
    yield ("handler", "cellveto", "leaf", (1.0, 1.0), (4, 5), 1)
    # unit prefactors in boxes with L != 1: the budgets of the probe then exceed the energy of one box traversal / L
    # (whole traversals are counted by the C code of the bound)
    for L in (2.5, 10.0):
        yield ("handler", "cbound", L, 1.0, None, 1.0)
    for L, kt, kb in [(1.0, 1.0, None), (10.0, 332.0, 531.2)]:
        for cb in (1.0, -1.0):
            yield ("handler", "cbound", L, kt, kb, cb)
        for nl in (2, 3):
            for lifting in ("inside_first_lifting.InsideFirstLifting", "ratio_lifting.RatioLifting"):
                if L == 10.0 and lifting.startswith("ratio") and not ctx.thorough:
                    continue
                yield ("handler", "summed", L, kt, kb, nl, lifting)
    for nl in (2, 3):
        yield ("handler", "root_summed", 1.0, nl)
    yield ("handler", "root_direct")
    yield ("handler", "piecewise_lj")
    for lifting in ("ratio_lifting.RatioLifting", "inside_first_lifting.InsideFirstLifting"):
        yield ("handler", "bending", lifting)


def run(ctx):
    from ..core import Result
    res = Result()
    cc = list(cases(ctx))
    n, sigs, fails = par.run_cases(check_handler, cc, ctx.cores, chunk=1, max_fail=20)
    evals = 0
    regimes = set()
    for (kind, rg), k in sigs:
        evals += k
        regimes |= {(kind,) + tuple(r) for r in rg}
    regimes = {tuple(str(x) for x in r) for r in regimes}
    for key, case, msg in fails:
        res.add(key, {"case": enc(case)}, msg)
    # (B) run level
    st = _enva.run_monitors(ctx, res, ("C01",), prefixes=("C01:",))
    cov = _enva.coverage(st, ("C01",), "C01 run-level monitor: end-of-chain resampling (randint answer -> unit, direction "
                         "cycle / rotation, speed), hard-core exclusion and bond window in every committed state of "
                         "hard-disk runs, every interaction candidate draws its own fresh energy budget(s).")
    cov["rule"] = ("(A) kernel identity lambda(t) * acc(t) == max(0, q_F(t)) on %d (handler class, potential, box) "
                   "settings x 2-6 in-states x up to 3 times each: clocks a_p(t) and acceptance located by bisection "
                   "over scripted draws on the real handlers, q_F from independent energies (own Ewald sum); "
                   "(B) " % len(cc)) + cov["rule"]
    cov["handler_evaluations"] = evals
    cov["run_level"] = {k: st.get(k, 0) for k in ("c01_candidates", "c01_end_of_chain", "c01_hard_core_states")}
    cov["evaluations"] += evals
    cov["kernel_regimes"] = sorted(map(list, regimes), key=repr)
    cov["distinct_nontrivial"] += len(regimes)
    res.coverage = cov
    res.assumptions = list(_enva.ASSUMPTIONS) + [
        "trusted theorem: a piecewise deterministic process whose events occur, for every factor, at rate max(0, q_F) "
        "with a lifting that balances flow, plus irreducible resampling, samples exp(-beta U) (Faulkner et al. 2018); "
        "convergence speed and long-run histograms are not examined",
        "numerical differentiation of the clocks: identity tolerance 2e-4 relative"]
    return res


def replay(ctx, case):
    if "case" in case:
        c = dec(case["case"])
        _, fails = par.guarded(check_handler)(c)
        return sorted(set(k for k, _ in fails)) or None
    return _enva.replay(ctx, case, ("C01",))
