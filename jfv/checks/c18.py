"""C18 -- alias table and cell-veto proposal.

(a) Walker: every rate vector of length 1..4 (quick) / 1..6 (thorough) over a magnitude alphabet, in every order.  For
    every table row (first draw, enumerated through random.choice) and the second draw u on an exact midpoint grid plus
    the closed end points: P(item) == rate/total exactly (integer counts for integer vectors, 1e-12 for float vectors
    via bisection of the threshold), total_rate == sum, zero-rate items never returned.
(b) Cell-veto handlers (LeafUnitCellVetoEventHandler, CompositeObjectCellVetoEventHandler with cell level 1) on real
    CuboidPeriodicCells with a stub estimator whose bound is different for every (offset, direction, sign): for every
    active cell, direction, charge sign and every walker answer: event time == stamp + E / (total rate * speed),
    target cell == active cell (+) sampled offset by index arithmetic, and the confirmation threshold of send_out_state
    (located by bisection over the uniform draw) == true rate / bound stored for that offset and direction.  For
    composite objects the active point mass is also placed in a different cell than its composite object.
"""
import itertools
import math
from fractions import Fraction

from .. import par
from ..env import init_setting
from ..fl import dec, enc
from ..seam import Seam
from ..core import HarnessError

ONE_BELOW = 1.0 - 2.0 ** -53


# ----------------------------------------------------------------------------------------------------------------------
# (a) Walker
def _walker(vec):
    from jellyfysh.event_handler.walker import Walker, WalkerItem
    return Walker([WalkerItem(i, float(r)) for i, r in enumerate(vec)])


class _Policy:
    """Scripted answers for the two draws of Walker.sample_cell: row index and second draw u."""

    def __init__(self):
        self.row = 0
        self.u = 0.0

    def __call__(self, kind, args, index):
        if kind == "choice":
            return self.row
        if kind == "uniform":
            return args[0] + (args[1] - args[0]) * self.u
        raise HarnessError("Walker drew random.%s%r" % (kind, args))


def check_walker_int(case):
    """case = ("wint", vec) with integer rates"""
    _, vec = case
    fails = []
    tot = sum(vec)
    n = len(vec)
    try:
        w = _walker(vec)
    except Exception as e:
        return None, [("walker-build-exception", "Walker(%r) raised %r" % (vec, e))]
    if w.total_rate != tot:
        fails.append(("total-rate", "Walker(%r).total_rate = %r, sum of rates %r" % (vec, w.total_rate, tot)))
    pol = _Policy()
    counts = {}
    nrows = None
    G = tot  # break points of the second draw are multiples of 1/tot in units of the mean rate * n ... see below
    # second draw: uniform(0, mean) = mean*u compared with a rate r' (rational with denominator n): the decision flips
    # at u = r'/mean = r' n / tot, a multiple of 1/tot when r' is a multiple of 1/n; midpoints (j+1/2)/tot avoid them.
    with Seam(pol) as seam:
        # number of rows: ask with increasing row index until the scripted choice is out of range
        pol.row, pol.u = 0, 0.5
        try:
            w.sample_cell()
            nrows = seam.log[0][1][0]
        except Exception as e:
            fails.append(("walker-sample-exception", "Walker(%r).sample_cell() raised %r" % (vec, e)))
            nrows = 0
        for row in range(nrows):
            pol.row = row
            for u in [(j + 0.5) / G for j in range(G)] + [0.0, ONE_BELOW]:
                pol.u = u
                try:
                    k = w.sample_cell()
                except Exception as e:
                    fails.append(("walker-sample-exception", "Walker(%r) row %d u=%r raised %r" % (vec, row, u, e)))
                    continue
                if not (isinstance(k, int) and 0 <= k < n) or vec[k] == 0:
                    fails.append(("zero-rate-selected", "Walker(%r) row %d of %d, second draw u=%r returned item %r "
                                  "whose rate is %r" % (vec, row, nrows, u, k,
                                                        vec[k] if isinstance(k, int) and 0 <= k < n else None)))
                if u not in (0.0, ONE_BELOW):
                    counts[k] = counts.get(k, 0) + 1
    if nrows:
        for i, r in enumerate(vec):
            if Fraction(counts.get(i, 0), nrows * G) != Fraction(r, tot):
                fails.append(("probability", "Walker(%r): P(item %d) = %d/%d, expected %d/%d"
                              % (vec, i, counts.get(i, 0), nrows * G, r, tot)))
    sig = ("wint", n, 0 in vec, len(set(vec)) == 1, any(v * n == tot for v in vec))
    return sig, fails


def check_walker_float(case):
    """case = ("wfloat", vec): probabilities via bisection of the acceptance threshold of every row."""
    _, vec = case
    fails = []
    n = len(vec)
    tot = math.fsum(vec)
    try:
        w = _walker(vec)
    except Exception as e:
        return None, [("walker-build-exception", "Walker(%r) raised %r" % (vec, e))]
    if abs(w.total_rate - tot) > 1e-12 * tot:
        fails.append(("total-rate", "Walker(%r).total_rate = %r, sum %r" % (vec, w.total_rate, tot)))
    pol = _Policy()
    prob = [0.0] * n
    with Seam(pol) as seam:
        pol.row, pol.u = 0, 0.5
        w.sample_cell()
        nrows = seam.log[0][1][0]
        for row in range(nrows):
            pol.row = row
            pol.u = 0.0
            first = w.sample_cell()
            pol.u = ONE_BELOW
            last = w.sample_cell()
            for k in (first, last):
                if vec[k] == 0.0:
                    fails.append(("zero-rate-selected", "Walker(%r) row %d returned zero-rate item %d at an end point "
                                  "of the second draw" % (vec, row, k)))
            if first == last:
                prob[first] += 1.0 / nrows
                continue
            lo, hi = 0.0, ONE_BELOW
            while hi - lo > 1e-16:
                mid = 0.5 * (lo + hi)
                if mid == lo or mid == hi:
                    break
                pol.u = mid
                if w.sample_cell() == first:
                    lo = mid
                else:
                    hi = mid
            prob[first] += hi / nrows
            prob[last] += (1.0 - hi) / nrows
    for i, r in enumerate(vec):
        if abs(prob[i] - r / tot) > 1e-12:
            fails.append(("probability-float", "Walker(%r): P(item %d) = %.15g, expected %.15g"
                          % (vec, i, prob[i], r / tot)))
    return ("wfloat", n, 0.0 in vec), fails


# ----------------------------------------------------------------------------------------------------------------------
# (b) cell-veto handlers with a stub estimator
def _stub_classes():
    from jellyfysh.estimator import Estimator
    from jellyfysh.potential import Potential

    class StubPotential(Potential):
        def __init__(self):
            super().__init__(prefactor=1.0)
            self.value = 0.0
            self.calls = []

        def derivative(self, velocity, separation, charge_one, charge_two):
            self.calls.append((tuple(velocity), tuple(separation), charge_one, charge_two))
            return self.value

    class StubEstimator(Estimator):
        """Bound as an injective function of (offset box, direction): wrong offset/direction => wrong number."""

        def __init__(self, potential, counts, lengths):
            super().__init__(potential=potential)
            self._counts = counts
            self._lengths = lengths

        def bound(self, offset, direction, lower):
            code = 0
            for o, c in zip(offset, self._counts):
                code = code * c + o
            return 1.0 + 0.137 * code + 0.0113 * direction + (0.5 if lower else 0.0)

        def derivative_bound(self, lower_corner, upper_corner, direction, calculate_lower_bound=False):
            # recover the offset from the corners: lower corner = cell_min - zero.cell_max ~ (k-1) side
            offset = []
            for d in range(len(lower_corner)):
                side = self._lengths[d] / self._counts[d]
                offset.append(int(round((lower_corner[d] + upper_corner[d]) / 2.0 / side)) % self._counts[d])
            up = self.bound(offset, direction, False)
            if calculate_lower_bound:
                return up, -self.bound(offset, direction, True)
            return up

        def charge_correction_factor(self, active_charges, target_charges=None):
            return active_charges

    return StubPotential, StubEstimator


def _unit_branch(ident, pos, charge, vel=None, stamp=None):
    from jellyfysh.base.node import Node
    from jellyfysh.base.unit import Unit
    return Node(Unit(ident, list(pos), charge=charge, velocity=vel, time_stamp=stamp), weight=1)


def check_cell_veto(case):
    """case = ("veto", kind, Ls, counts, layers)  kind in {"leaf", "composite"}"""
    import jellyfysh.setting as setting
    from jellyfysh.base.node import Node
    from jellyfysh.base.unit import Unit
    from jellyfysh.base.time import Time
    from jellyfysh.activator.internal_state.cell_occupancy.cells.cuboid_periodic_cells import CuboidPeriodicCells
    from jellyfysh.event_handler.walker import Walker
    _, kind, Ls, counts, layers = case
    dim = len(Ls)
    composite = kind == "composite"
    init_setting(Ls, roots=4, per_root=2 if composite else 1, beta=2.0)
    StubPotential, StubEstimator = _stub_classes()
    fails = []
    nexec = 0

    def bad(key, msg):
        if len(fails) < 40:
            fails.append((key, "%s L=%r cells=%r layers=%d: %s" % (kind, Ls, counts, layers, msg)))
    cells = CuboidPeriodicCells(cells_per_side=list(counts), neighbor_layers=layers)
    pot = StubPotential()
    est = StubEstimator(pot, counts, Ls)
    import io
    import contextlib
    with contextlib.redirect_stdout(io.StringIO()):
        if composite:
            from jellyfysh.event_handler.composite_object_cell_veto_event_handler import \
                CompositeObjectCellVetoEventHandler
            from jellyfysh.lifting.inside_first_lifting import InsideFirstLifting
            handler = CompositeObjectCellVetoEventHandler(estimator=est, lifting=InsideFirstLifting(), charge="q")
        else:
            from jellyfysh.event_handler.leaf_unit_cell_veto_event_handler import LeafUnitCellVetoEventHandler
            handler = LeafUnitCellVetoEventHandler(estimator=est, charge="q")
        handler.initialize(cells, 1)
    by_ident = {c.identifier: c for c in cells.yield_cells()}
    zero = (0,) * dim
    near0 = set(c.identifier for c in cells.nearby_cells(by_ident[zero]))
    offsets = [i for i in by_ident if i not in near0]
    if not offsets:
        raise HarnessError("grid %r with %d layers has no non-nearby cells" % (counts, layers))
    sampled = []
    orig_sample = Walker.sample_cell

    def recording_sample(self):
        r = orig_sample(self)
        sampled.append(r)
        return r
    Walker.sample_cell = recording_sample

    class Pol:
        row = 0
        u = 0.5
        E = 1.0
        conf = 0.5

        def __call__(self, kind_, args, index):
            if kind_ == "choice":
                return self.row % args[0]
            if kind_ == "uniform":
                # first uniform of an execution belongs to the walker, later ones to the confirmation / lifting
                self.n_uniform += 1
                if self.n_uniform == 1 and self.phase == "time":
                    return args[0] + (args[1] - args[0]) * self.u
                return args[0] + (args[1] - args[0]) * self.conf
            if kind_ == "expovariate":
                if args != (setting.beta,):
                    raise HarnessError("expovariate called with %r" % (args,))
                return self.E
            raise HarnessError("cell-veto handler drew random.%s%r" % (kind_, args))
    pol = Pol()
    speed = 1.5
    stamp = (3.0, 0.25)
    try:
        with Seam(pol):
            active_cells = list(by_ident)
            for acell in active_cells:
                cell = by_ident[acell]
                centre = [(cell.cell_min[d] + cell.cell_max[d]) / 2 for d in range(dim)]
                for direction in range(dim):
                    # charges of magnitude != 1 (water: 0.41 / -0.82) on the first active cells: the total rate and the
                    # stored bound both carry the estimator's charge correction factor (here |charge|)
                    for sign in (1.0, -1.0) + ((0.41, -0.82) if acell in active_cells[:2] else ()):
                        total = abs(sign) * sum(max(est.bound(o, direction, sign < 0), 0.0) for o in offsets)
                        # enumerate walker answers: every row x {low u, high u}
                        nrows = len(offsets)  # upper bound on the number of rows
                        for row in range(nrows):
                            for u in (0.0, 0.3, ONE_BELOW):
                                pol.row, pol.u, pol.E = row, u, 0.7 + 0.1 * row
                                vel = [0.0] * dim
                                vel[direction] = speed
                                if composite:
                                    # the active point mass sits one cell further along +x than its composite object
                                    leafpos = list(centre)
                                    leafpos[0] = (leafpos[0] + Ls[0] / counts[0]) % Ls[0]
                                    other = list(centre)
                                    root = Node(Unit((0,), list(centre), charge=None,
                                                     velocity=[v / 2 for v in vel], time_stamp=Time(*stamp)), weight=1)
                                    root.add_child(Node(Unit((0, 0), leafpos, charge={"q": sign}, velocity=list(vel),
                                                             time_stamp=Time(*stamp)), weight=0.5))
                                    root.add_child(Node(Unit((0, 1), other, charge={"q": -sign}), weight=0.5))
                                    in_state = [root]
                                else:
                                    in_state = [Node(Unit((0,), list(centre), charge={"q": sign}, velocity=list(vel),
                                                          time_stamp=Time(*stamp)), weight=1)]
                                del sampled[:]
                                pol.phase, pol.n_uniform = "time", 0
                                try:
                                    t, out_args = handler.send_event_time(in_state)
                                except Exception as e:
                                    bad("send-event-time-exception", "active cell %r direction %d sign %+g raised %r"
                                        % (acell, direction, sign, e))
                                    continue
                                nexec += 1
                                if len(sampled) != 1:
                                    bad("walker-calls", "send_event_time sampled %d offsets" % len(sampled))
                                    continue
                                off = sampled[0].identifier
                                if off in near0:
                                    bad("offset-nearby", "sampled offset %r is a nearby offset" % (off,))
                                want_cell = tuple((acell[d] + off[d]) % counts[d] for d in range(dim))
                                if len(out_args) != 1 or out_args[0].identifier != want_cell:
                                    bad("target-cell", "active unit's cell %r, sampled offset %r: target cell %r, index "
                                        "arithmetic gives %r" % (acell, off, [c.identifier for c in out_args],
                                                                 want_cell))
                                want_dt = pol.E / (total * speed)
                                want_t = Fraction(stamp[0]) + Fraction(stamp[1]) + Fraction(want_dt)
                                got_t = Fraction(t.quotient) + Fraction(t.remainder)
                                if abs(got_t - want_t) > 1e-12:
                                    bad("event-time", "active cell %r direction %d sign %+g: event time %r, expected "
                                        "stamp + %r (E / (sum of bounds x charge factor x speed))"
                                        % (acell, direction, sign, t, want_dt))
                                # confirmation threshold (only for a subset: first active cells)
                                if acell in active_cells[:2] and u == 0.3:
                                    bound = abs(sign) * est.bound(off, direction, sign < 0)
                                    q = 0.37 * bound
                                    tc = by_ident[want_cell]
                                    tpos = [(tc.cell_min[d] + tc.cell_max[d]) / 2 for d in range(dim)]

                                    def accepted(conf):
                                        import copy
                                        st = copy.deepcopy(in_state)
                                        pol.phase, pol.n_uniform = "time", 0
                                        pol.conf = conf
                                        del sampled[:]
                                        handler.send_event_time(st)
                                        pol.phase = "out"
                                        pot.value = q
                                        if composite:
                                            troot = Node(Unit((1,), list(tpos), charge=None), weight=1)
                                            troot.add_child(Node(Unit((1, 0), list(tpos), charge={"q": 1.0}),
                                                                 weight=0.5))
                                            troot.add_child(Node(Unit((1, 1), list(tpos), charge={"q": -1.0}),
                                                                 weight=0.5))
                                            tnode = troot
                                            pot.value = q / 2  # two pair derivatives are summed by the handler
                                        else:
                                            tnode = Node(Unit((1,), list(tpos), charge={"q": 1.0}), weight=1)
                                        out = handler.send_out_state(tnode)
                                        moving = [c.value.identifier for r in out
                                                  for c in _leaves(r) if c.value.velocity is not None]
                                        return moving != ([(0, 0)] if composite else [(0,)])
                                    try:
                                        lo, hi = 0.0, ONE_BELOW
                                        if not accepted(lo) or accepted(hi):
                                            bad("confirmation-ends", "offset %r direction %d: accepted(u=0)=%r "
                                                "accepted(u~1)=%r with true rate 0.37 x bound"
                                                % (off, direction, accepted(lo), accepted(hi)))
                                        else:
                                            for _ in range(60):
                                                mid = 0.5 * (lo + hi)
                                                if accepted(mid):
                                                    lo = mid
                                                else:
                                                    hi = mid
                                            if abs(hi - 0.37) > 1e-9:
                                                bad("confirmation-bound", "active cell %r offset %r direction %d sign "
                                                    "%+g: events are confirmed for u < %.12f, i.e. against a bound of "
                                                    "%.9f instead of the stored %.9f"
                                                    % (acell, off, direction, sign, hi, q / hi, bound))
                                        nexec += 124
                                    except Exception as e:
                                        bad("send-out-state-exception", "offset %r direction %d raised %r"
                                            % (off, direction, e))
    finally:
        Walker.sample_cell = orig_sample
        setting.reset()
    return (("veto", kind, dim, len(set(counts)) > 1, layers, tuple(Ls), tuple(counts)), nexec), fails


def _leaves(node):
    if not node.children:
        yield node
    for c in node.children:
        yield from _leaves(c)


DISPATCH = {"wint": check_walker_int, "wfloat": check_walker_float, "veto": check_cell_veto}


def check_case(case):
    return DISPATCH[case[0]](case)


def int_vectors(ctx):
    vals = [0, 1, 2, 3, 7]
    nmax = 5 if ctx.thorough else 4
    for n in range(1, nmax + 1):
        for vec in itertools.product(vals, repeat=n):
            if sum(vec) > 0:
                yield vec
    if ctx.thorough:
        for vec in itertools.product([0, 1, 5], repeat=6):
            if sum(vec) > 0:
                yield vec


def float_vectors(ctx):
    vals = [0.0, 1.0, 1e-9, 1e9, 0.3]
    nmax = 5 if ctx.thorough else 4
    for n in range(1, nmax + 1):
        for vec in itertools.product(vals, repeat=n):
            if sum(vec) > 0 and any(v not in (0.0, 1.0) for v in vec):
                yield vec
    yield (0.25, 4.0, 1.0, 2.0, 2.75)
    yield (0.1, 0.2, 0.3, 0.4)
    yield tuple([0.5] * 4)
    yield (1e-300, 1.0)


def veto_grids(ctx):
    gs = [("leaf", (1.0, 1.0), (4, 5), 1), ("leaf", (1.0, 1.0, 1.0), (4, 4, 4), 1),
          ("composite", (1.0, 2.0), (5, 4), 1), ("leaf", (1.0, 1.0, 1.0), (3, 5, 7), 1),
          ("leaf", (2.5, 1.0), (5, 4), 1)]  # first side much longer than the second
    if ctx.thorough:
        gs += [("composite", (1.0, 1.0, 1.0), (4, 4, 4), 1), ("composite", (1.0, 1.0, 1.0), (3, 5, 7), 1),
               ("leaf", (1.0, 1.0), (7, 6), 2), ("composite", (3.0, 1.0), (6, 7), 2)]
    return gs


def cases(ctx):
    for g in veto_grids(ctx):
        yield ("veto",) + g
    for v in int_vectors(ctx):
        yield ("wint", v)
    for v in float_vectors(ctx):
        yield ("wfloat", v)


def run(ctx):
    from ..core import Result
    res = Result()
    all_cases = list(cases(ctx))
    heavy = [c for c in all_cases if c[0] == "veto"]
    light = [c for c in all_cases if c[0] != "veto"]
    n1, sigs1, fails1 = par.run_cases(check_case, heavy, ctx.cores, chunk=1)
    n2, sigs2, fails2 = par.run_cases(check_case, light, ctx.cores, chunk=100)
    for key, case, msg in fails1 + fails2:
        res.add(key, {"case": enc(case)}, msg)
    veto_exec = sum(s[1] for s in sigs1)
    regimes = set(s[0] for s in sigs1) | set(sigs2)
    wexec = sum((len(v) * (sum(v) + 2)) for v in int_vectors(ctx))
    res.coverage = {
        "evaluations": veto_exec + wexec + 60 * sum(len(v) for v in float_vectors(ctx)),
        "rate_vectors": n2, "cell_veto_grids": n1, "cell_veto_executions": veto_exec,
        "distinct_nontrivial": len(regimes),
        "rule": "(a) all rate vectors over {0,1,2,3,7} of length 1..%d in every order (exact integer probabilities: "
                "every table row x midpoint grid of the second draw + end points 0 and 1-2^-53) and float vectors over "
                "{0,1,1e-9,1e9,0.3} (threshold bisection, 1e-12); (b) %d cell systems x every active cell x direction "
                "x charge sign x every walker row x 3 second draws on real cell-veto handlers with an injective stub "
                "estimator (time, target cell by index arithmetic, confirmation threshold by bisection). "
                "distinct_nontrivial = distinct regimes (vector size / zeros / all equal / entry equal to the mean; "
                "handler kind, dimension, unequal counts)" % (5 if ctx.thorough else 4, n1),
        "samples": [enc(("wint", (0, 1, 3))), enc(("wfloat", (1e-9, 1e9, 0.3))),
                    enc(("veto", "composite", (1.0, 2.0), (5, 4), 1))],
        "exhaustive": True,
    }
    # (c) the proposals inside explored runs of every configuration that wires a cell-veto handler
    from . import _enva
    st = _enva.run_monitors(ctx, res, ("C18",), spec_filter=_has_cell_veto, prefixes=("C18:",), resume_legs=(),
                            quick_baselines=[ctx.seed % 4])
    res.coverage["evaluations"] += st["executions"]
    res.coverage["run_level"] = {"executions": st["executions"], "configurations": len(st["per_spec"]),
                                 "cell_veto_proposals": st.get("c18_proposals", 0),
                                 "cell_veto_commits": st.get("c18_commits", 0),
                                 "distinct_outcomes": len(st["outcomes"])}
    res.coverage["rule"] += (" (c) engine A on the %d configurations with a cell-veto handler: at every proposal the "
                             "offset target - active cell has a stored bound; at every committed proposal the active "
                             "unit is still in the cell the offset was applied to." % len(st["per_spec"]))
    res.assumptions = ["random.choice / random.uniform / random.expovariate are the only draws (proved by the seam)",
                       "the estimator is replaced by a stub with a distinct bound per (offset, direction, sign); real "
                       "estimators only provide numbers"]
    return res


def _has_cell_veto(spec):
    from .. import cfg
    c = cfg.load(spec.ini)
    return any(c.has_option(sec, "event_handler") and "cell_veto" in c.get(sec, "event_handler")
               for sec in c.sections())


def replay(ctx, case):
    if "spec" in case:
        from . import _enva
        return _enva.replay(ctx, case, ("C18",))
    c = dec(case["case"])
    _, fails = par.guarded(check_case)(c)
    return sorted(set(k for k, _ in fails)) or None
