"""C13 -- in-states are isolated copies; only commits change the global state.

Engine B on the real TreeStateHandler (TreePhysicalState + TreeLiftingState): every sequence, up to a depth bound, of

    extract(id)            for every identifier of the tree
    mutate(branch, node, m) m in {position in place, position rebound, start moving / edit velocity in place,
                                  stop moving, time stamp updated in place}, for every node of every live branch
    insert(branch)         commit a live (extracted, not yet inserted) branch
    active                 extract_active_global_state

is executed on a fresh real object and compared, after the last operation, with a dict model: the extracted branch is
node + ancestors + descendants with the model values; a mutation changes nothing but that branch (global state and all
other live branches are re-read); after an insert exactly the inserted values are read back; the active part equals
the independent-active rule evaluated on the model (whenever root/leaf motion in the model is consistent).  Mutating a
branch after it was inserted is not in the alphabet (the statement promises nothing there).
Sequences are explored as a tree (no state merging: aliasing bugs make value-equal states behave differently).
"""
import itertools

from .. import par
from ..env import init_setting
from ..fl import dec, enc

# (roots, children per root or 0 for a one-level tree)
SHAPES_QUICK = [(2, 0), (2, 2), (1, 3), (2, 1)]
SHAPES_THOROUGH = [(2, 0), (2, 2), (1, 3), (3, 2), (2, 1), (3, 0)]
STARTS = ["rest", "leaf", "object", "shared", "debug"]
MUTS = ["pos_inplace", "pos_rebind", "vel_set", "vel_none", "ts", "vel_zero"]


def ids_of(shape):
    nr, nc = shape
    out = [(r,) for r in range(nr)]
    if nc:
        out += [(r, c) for r in range(nr) for c in range(nc)]
    return out


def related(ident, ids):
    return [k for k in ids if k[:len(ident)] == ident or ident[:len(k)] == k]


class World:
    """The real state handler plus the dict model: id -> [position, velocity or None, (q, r) or None]."""

    def __init__(self, shape, start):
        from jellyfysh.base.node import Node
        from jellyfysh.base.particle import Particle
        from jellyfysh.base.time import Time
        from jellyfysh.state_handler.tree_state_handler import TreeStateHandler
        from jellyfysh.state_handler.physical_state.tree_physical_state import TreePhysicalState
        from jellyfysh.state_handler.lifting_state.tree_lifting_state import TreeLiftingState
        nr, nc = shape
        init_setting((1.0, 1.0), cubic=True, roots=nr, per_root=max(nc, 1), levels=2 if nc else 1)
        self.shape = shape
        self.ids = ids_of(shape)
        roots, model = [], {}
        for r in range(nr):
            n = Node(Particle([0.1 * r + 0.05, 0.2], None if nc else {"q": 1.0}))
            model[(r,)] = [[0.1 * r + 0.05, 0.2], None, None]
            for c in range(nc):
                p = [0.1 * r + 0.01 * c, 0.2 + 0.01 * c]
                n.add_child(Node(Particle(list(p), {"q": float(c)})))
                model[(r, c)] = [list(p), None, None]
            roots.append(n)
        if start == "debug":
            # the state handler as `run.py -vv` builds it (it caches "debug logging is on" and takes its debug branches,
            # which must only log); otherwise the start "leaf"
            import logging
            lg = logging.getLogger("jellyfysh")
            old_level, old_prop = lg.level, lg.propagate
            if not any(isinstance(h, logging.NullHandler) for h in lg.handlers):
                lg.addHandler(logging.NullHandler())
            logging.disable(logging.NOTSET)
            lg.setLevel(logging.DEBUG)
            lg.propagate = False
            try:
                self.sh = TreeStateHandler(TreePhysicalState(), TreeLiftingState())
            finally:
                lg.setLevel(old_level)
                lg.propagate = old_prop
                logging.disable(logging.WARNING)
            start = "leaf"
        else:
            self.sh = TreeStateHandler(TreePhysicalState(), TreeLiftingState())
        self.sh.initialize(roots)
        self.model = model
        self.branches = []  # [cnode, ident, snapshot dict or None once inserted]
        if start != "rest":
            # reach a non-initial state through the public interface: extract, set in motion, insert
            b = self.sh.extract_from_global_state((0,))
            w = 1.0 / nc if nc else 1.0
            if nc and start == "leaf":
                b.value.velocity, b.value.time_stamp = [w, 0.0], Time(1.0, 0.5)
                b.children[0].value.velocity, b.children[0].value.time_stamp = [1.0, 0.0], Time(1.0, 0.5)
                model[(0,)][1:] = [[w, 0.0], (1.0, 0.5)]
                model[(0, 0)][1:] = [[1.0, 0.0], (1.0, 0.5)]
            elif start == "shared":
                # a rigid move committed the way a handler may write it: ONE velocity list and ONE Time object assigned
                # to the composite object and all its point masses (value-equal to "object", but aliased)
                vel, ts = [1.0, 0.0], Time(1.0, 0.5)
                b.value.velocity, b.value.time_stamp = vel, ts
                model[(0,)][1:] = [[1.0, 0.0], (1.0, 0.5)]
                for c, ch in enumerate(b.children):
                    ch.value.velocity, ch.value.time_stamp = vel, ts
                    model[(0, c)][1:] = [[1.0, 0.0], (1.0, 0.5)]
            else:
                b.value.velocity, b.value.time_stamp = [1.0, 0.0], Time(1.0, 0.5)
                model[(0,)][1:] = [[1.0, 0.0], (1.0, 0.5)]
                for c, ch in enumerate(b.children):
                    ch.value.velocity, ch.value.time_stamp = [1.0, 0.0], Time(1.0, 0.5)
                    model[(0, c)][1:] = [[1.0, 0.0], (1.0, 0.5)]
            self.sh.insert_into_global_state([b])

    # reading ---------------------------------------------------------------------------------------------------------
    @staticmethod
    def read_tree(cnode, out):
        u = cnode.value
        out[u.identifier] = (list(u.position), None if u.velocity is None else list(u.velocity),
                             None if u.time_stamp is None else (u.time_stamp.quotient, u.time_stamp.remainder))
        for ch in cnode.children:
            World.read_tree(ch, out)
        return out

    def read_global(self):
        out = {}
        for root in self.sh.extract_global_state():
            self.read_tree(root, out)
        return out

    def model_view(self):
        return {k: (list(v[0]), None if v[1] is None else list(v[1]), v[2]) for k, v in self.model.items()}

    def ops(self, max_extracts):
        n_ext = len(self.branches)
        if n_ext < max_extracts:
            for ident in self.ids:
                yield ("extract", ident)
        for bi, (b, ident, snap) in enumerate(self.branches):
            if snap is None:
                continue
            for nid in related(ident, self.ids):
                for m in MUTS:
                    yield ("mutate", bi, nid, m)
            yield ("insert", bi)
        yield ("active",)

    @staticmethod
    def find(cnode, ident):
        if cnode.value.identifier == ident:
            return cnode
        for ch in cnode.children:
            r = World.find(ch, ident)
            if r is not None:
                return r
        return None

    def apply(self, op):
        """Returns a (key, message) violation or None; updates model and snapshots."""
        from jellyfysh.base.time import Time
        if op[0] == "extract":
            b = self.sh.extract_from_global_state(op[1])
            got = self.read_tree(b, {})
            exp = {k: v for k, v in self.model_view().items() if k in related(op[1], self.ids)}
            self.branches.append([b, op[1], got])
            if got != exp:
                return ("extract-content", "extract(%r) returned %r, the global state holds %r" % (op[1], got, exp))
        elif op[0] == "mutate":
            b, ident, snap = self.branches[op[1]]
            node = self.find(b, op[2])
            if node is None:
                return ("extract-content", "branch of %r has no node %r" % (ident, op[2]))
            u = node.value
            pos, vel, ts = snap[op[2]]
            m = op[3]
            if m == "pos_inplace":
                u.position[0] = 0.777
                snap[op[2]] = ([0.777, pos[1]], vel, ts)
            elif m == "pos_rebind":
                u.position = [0.6, 0.65]
                snap[op[2]] = ([0.6, 0.65], vel, ts)
            elif m == "vel_set":
                if u.velocity is None:
                    u.velocity = [1.0, 0.0]
                    u.time_stamp = Time(0.0, 0.25)
                    snap[op[2]] = (pos, [1.0, 0.0], (0.0, 0.25))
                else:
                    u.velocity[0] = 2.0
                    snap[op[2]] = (pos, [2.0, vel[1]], ts)
            elif m == "vel_zero":
                # a velocity that is exactly zero in every direction (a composite object whose point masses move with
                # +v and -v) is still a velocity with a time stamp: it must be read back as committed
                u.velocity = [0.0, -0.0]
                if u.time_stamp is None:
                    u.time_stamp = Time(0.0, 0.25)
                    ts = (0.0, 0.25)
                snap[op[2]] = (pos, [0.0, -0.0], ts)
            elif m == "vel_none":
                u.velocity = None
                u.time_stamp = None
                snap[op[2]] = (pos, None, None)
            elif m == "ts":
                if u.time_stamp is not None:
                    u.time_stamp.update(Time(3.0, 0.5))
                    snap[op[2]] = (pos, vel, (3.0, 0.5))
        elif op[0] == "insert":
            b, ident, snap = self.branches[op[1]]
            self.sh.insert_into_global_state([b])
            for k, v in snap.items():
                self.model[k] = [list(v[0]), None if v[1] is None else list(v[1]), v[2]]
            self.branches[op[1]][2] = None
        else:
            act = self.sh.extract_active_global_state()
            nr, nc = self.shape
            got = []
            mv = self.model_view()
            for c in act:
                tree = self.read_tree(c, {})
                exp = {k: mv[k] for k in tree if k in mv}
                if tree != exp or set(tree) != set(related(c.value.identifier, self.ids)) & set(tree):
                    return ("active-content", "active branch %r holds %r, global state %r"
                            % (c.value.identifier, tree, exp))
                # identify what the branch stands for: the deepest single chain end
                node = c
                while len(node.children) == 1 and nc != 1:
                    node = node.children[0]
                if nc == 1:
                    # one child per root: a root branch has the full subtree; a leaf branch was extracted by (r, 0);
                    # both look alike, so compare by count below
                    node = c
                got.append(node.value.identifier)
            moving = set(k for k, v in self.model.items() if v[1] is not None)
            consistent = True
            exp = []
            if nc == 0:
                exp = sorted(moving)
            else:
                for r in range(nr):
                    kids = [(r, c) for c in range(nc) if (r, c) in moving]
                    if ((r,) in moving) != bool(kids):
                        consistent = False
                    if (r,) in moving:
                        exp += [(r,)] if len(kids) == nc else kids
            if consistent:
                if nc == 1:
                    # each independently moving object must appear exactly once
                    if sorted(g[:1] for g in got) != sorted(e[:1] for e in exp):
                        return ("active-set", "extract_active_global_state yields branches for %r, independently "
                                "moving units are %r" % (sorted(got), sorted(exp)))
                elif sorted(got) != sorted(exp):
                    return ("active-set", "extract_active_global_state yields %r, independently moving units are %r"
                            % (sorted(got), sorted(exp)))
            # active branches must be copies as well: scribble on them, nothing else may change
            for c in act:
                c.value.position[0] = 0.123
                if c.value.velocity is not None:
                    c.value.velocity[0] = 9.0
                    c.value.time_stamp.update(Time(9.0, 0.0))
                for ch in c.children:
                    ch.value.position[0] = 0.321
                    if ch.value.velocity is not None:
                        ch.value.velocity[0] = 9.0
                        ch.value.time_stamp.update(Time(9.0, 0.0))
        # non-interference
        g = self.read_global()
        mvw = self.model_view()
        if g != mvw:
            diff = sorted(k for k in mvw if g.get(k) != mvw[k])
            return ("global-changed", "after %r the global state of %r reads %r, expected %r"
                    % (op, diff, [g.get(k) for k in diff], [mvw[k] for k in diff]))
        for b, ident, snap in self.branches:
            if snap is not None:
                now = self.read_tree(b, {})
                if now != snap:
                    diff = sorted(k for k in snap if now.get(k) != snap[k])
                    return ("branch-changed", "after %r the live branch of %r reads %r at %r, expected %r"
                            % (op, ident, [now.get(k) for k in diff], diff, [snap[k] for k in diff]))
        return None


def run_sequence(shape, start, seq):
    """Replay seq on a fresh world; verdict of the *last* operation (prefixes were checked one level up)."""
    w = World(shape, start)
    for i, op in enumerate(seq):
        v = w.apply(op)
        if v is not None:
            return w, (v[0], "shape=%r start=%s sequence=%r: %s" % (shape, start, seq[:i + 1], v[1]))
    return w, None


def explore(item):
    """item = (shape, start, prefix, depth, max_extracts): DFS below prefix. Returns (n sequences, kinds, fails)."""
    shape, start, prefix, depth, max_extracts = item
    n = 0
    fails = []
    kinds = set()

    def rec(seq):
        nonlocal n
        w, v = run_sequence(shape, start, seq)
        n += 1
        if seq:
            kinds.add((shape, start, tuple(o[0] if o[0] != "mutate" else o[3] for o in seq[-2:])))
        if v is not None:
            if len(fails) < 20:
                fails.append((v[0], {"shape": list(shape), "start": start, "sequence": enc(seq)}, v[1]))
            return
        if len(seq) >= depth:
            return
        for op in list(w.ops(max_extracts)):
            rec(seq + [op])
    rec(list(prefix))
    return n, kinds, fails


def run(ctx):
    from ..core import Result
    res = Result()
    res.level = "model_checking"
    shapes = SHAPES_THOROUGH if ctx.thorough else SHAPES_QUICK
    depth = 5 if ctx.thorough else 4
    max_extracts = 2
    items = []
    for shape in shapes:
        for start in STARTS:
            if start == "leaf" and shape[1] == 0:
                continue
            # split the tree at depth 1 (2 for the bigger shapes) for the worker pool
            w = World(shape, start)
            for op in list(w.ops(max_extracts)):
                w1, _ = run_sequence(shape, start, [op])
                for op2 in list(w1.ops(max_extracts)):
                    items.append((shape, start, [op, op2], depth, max_extracts))
            items.append((shape, start, [], 1, max_extracts))
    total, kinds, allf = 0, set(), []
    for n, k, f in par.pmap(explore, items, ctx.cores):
        total += n
        kinds |= k
        allf += f
    for key, case, msg in allf:
        res.add(key, case, msg)
    # "between two commits the global state does not change": engine A with the C13 monitor on real runs
    from . import _enva
    from .. import specs as specmod

    def pick(spec):
        return any(t in spec.name for t in ("dipole_motion", "water/single", "cell_veto+crowd4", "dipoles/cell_bounded",
                                             "atom_factors", "soft_cuboid_sparse", "hard_disk_dipoles+dense3")) \
            and "~" not in spec.name
    st = _enva.run_monitors(ctx, res, ("C13",), spec_filter=pick)
    total_runs = st["executions"]
    res.coverage = {
        "states": total, "transitions": total, "traces_validated_against_impl": total + total_runs,
        "evaluations": total + total_runs, "distinct_nontrivial": len(kinds), "explored_runs": total_runs,
        "rule": "all operation sequences of length <= %d (at most %d extractions) over extract / 5 mutations per branch "
                "node / insert / active, on tree shapes %r x start states %r of the real TreeStateHandler, each "
                "replayed on a fresh object and compared with a dict model after the last operation; explored as a "
                "tree (states = sequences). distinct_nontrivial = distinct (shape, start, last two operation kinds)"
                % (depth, max_extracts, shapes, STARTS),
        "samples": [enc([("extract", (0, 0)), ("mutate", 0, (0, 0), "vel_set"), ("insert", 0), ("active",)])],
        "exhaustive": True,
    }
    res.assumptions = ["a branch is not mutated after it has been inserted (excluded by the statement)",
                       "the active-set rule is only compared when root and leaf motion in the model are consistent"]
    return res


def replay(ctx, case):
    if "sequence" not in case:
        from . import _enva
        return _enva.replay(ctx, case, ("C13",))
    seq = [tuple(o) for o in dec(case["sequence"])]
    seq = [tuple(tuple(x) if isinstance(x, (list, tuple)) else x for x in o) for o in seq]
    _, v = run_sequence(tuple(case["shape"]), case["start"], seq)
    return [v[0]] if v else None
