"""Engine D -- controlled scheduler for the multi-process mediator.

`multiprocessing` / `multiprocessing.connection` as looked up through the module globals of multi_process_mediator.py
and `Event` in or_event.py are replaced by in-process fakes: each Process is a thread running `run_in_process` on a deep
copy of the handler (fork semantics), pipes pickle every message (process isolation), each fake process owns its own
`random` state (swapped at every hand-over), and exactly one thread holds the baton.  Every primitive operation
(send, recv, poll, connection.wait, Event.set/clear/is_set/wait, semaphore acquire/release, process exit) is a scheduling
point at which the Chooser decides who runs next.  "No enabled thread" is a deadlock.
"""
import collections
import copy
import pickle
import random
import threading


class Deadlock(Exception):
    pass


class Killed(BaseException):
    pass


class Sched:
    def __init__(self, chooser):
        self.chooser = chooser  # f(enabled tids, current tid or None, description) -> tid
        self.threads = {}
        self.current = None
        self.rng = {}
        self.n_points = 0
        self.processes = []
        self.errors = []
        self.stage_vectors = set()

    def register_main(self):
        t = T(self, 0, None)
        t.started = True
        self.threads[0] = t
        self.current = 0
        self.rng[0] = random.getstate()
        return t

    def spawn(self, fn):
        tid = len(self.threads)
        t = T(self, tid, fn)
        self.threads[tid] = t
        self.rng[tid] = random.getstate()  # fork: the child starts with a copy of the parent's generator state
        return t

    def enabled(self):
        return [tid for tid, t in self.threads.items()
                if t.started and not t.done and (t.blocked_on is None or t.blocked_on())]

    def point(self, desc=""):
        me = self.current
        self.n_points += 1
        en = self.enabled()
        if not en:
            raise Deadlock("no enabled thread at %s" % desc)
        nxt = self.chooser(en, me, desc)
        if nxt != me:
            self.switch(me, nxt)

    def switch(self, me, nxt):
        self.rng[me] = random.getstate()
        random.setstate(self.rng[nxt])
        self.current = nxt
        tn, tm = self.threads[nxt], self.threads[me]
        tn.baton.release()
        tm.baton.acquire()
        if tm.kill:
            raise Killed()

    def block(self, cond, desc):
        me = self.current
        t = self.threads[me]
        t.blocked_on, t.wait_desc = cond, desc
        while not cond():
            en = [x for x in self.enabled() if x != me]
            if not en:
                raise Deadlock("thread %d blocked on %s and no other thread can run; waiting: %s"
                               % (me, desc, {tid: tt.wait_desc for tid, tt in self.threads.items()
                                             if not tt.done and tt.started and tt.wait_desc}))
            nxt = self.chooser(en, None, "blocked:" + desc)
            self.switch(me, nxt)
        t.blocked_on = t.wait_desc = None

    def exit_thread(self):
        me = self.current
        t = self.threads[me]
        t.done = True
        en = self.enabled()
        if not en:
            main = self.threads[0]
            self.current = 0
            random.setstate(self.rng[0])
            main.baton.release()
            return
        nxt = self.chooser(en, None, "exit")
        self.rng[me] = random.getstate()
        random.setstate(self.rng[nxt])
        self.current = nxt
        self.threads[nxt].baton.release()

    def kill_all(self):
        for tid, t in self.threads.items():
            if tid != 0 and t.started and not t.done and t.thread is not None:
                t.kill = True
                t.baton.release()
                t.thread.join(timeout=5)


class T:
    def __init__(self, sched, tid, fn):
        self.sched, self.tid, self.fn = sched, tid, fn
        self.baton = threading.Semaphore(0)
        self.started = self.done = self.kill = False
        self.blocked_on = self.wait_desc = self.thread = None

    def start(self):
        def body():
            self.baton.acquire()
            if self.kill:
                self.done = True
                return
            try:
                self.fn()
            except Killed:
                self.done = True
                return
            except BaseException as e:  # an exception in a worker: record, the mediator will block -> deadlock report
                self.sched.errors.append("worker %d: %r" % (self.tid, e))
            self.sched.exit_thread()
        self.thread = threading.Thread(target=body, daemon=True)
        self.thread.start()
        self.started = True


SCHED = None


class FakePipeEnd:
    def __init__(self, name):
        self.name = name
        self.inbox = collections.deque()
        self.peer = None
        self.closed = False

    def send(self, obj):
        SCHED.point("send:" + self.name)
        self.peer.inbox.append(pickle.dumps(obj))

    def recv(self):
        SCHED.point("recv:" + self.name)
        if not self.inbox:
            SCHED.block(lambda: bool(self.inbox), "recv:" + self.name)
        return pickle.loads(self.inbox.popleft())

    def poll(self, timeout=0.0):
        SCHED.point("poll:" + self.name)
        return bool(self.inbox)

    def close(self):
        self.closed = True

    def __hash__(self):
        return id(self)


class FakeMP:
    """Stand-in for the `multiprocessing` module inside multi_process_mediator.py."""

    def __init__(self):
        self.pipes = 0
        self.events = 0

    def Pipe(self):
        self.pipes += 1
        a, b = FakePipeEnd("M%d" % self.pipes), FakePipeEnd("W%d" % self.pipes)
        a.peer, b.peer = b, a
        return a, b

    def Event(self):
        self.events += 1
        return FakeEvent("E%d" % self.events)

    def BoundedSemaphore(self, value=1):
        return FakeSemaphore(value)

    def Process(self, target=None, args=()):
        p = FakeProcess(target, args)
        SCHED.processes.append(p)
        return p

    def active_children(self):
        return [p for p in SCHED.processes if p.is_alive()]


class FakeConnection:
    @staticmethod
    def wait(pipes, timeout=None):
        SCHED.point("connection.wait")
        if not any(p.inbox for p in pipes):
            SCHED.block(lambda: any(p.inbox for p in pipes), "connection.wait")
        return [p for p in pipes if p.inbox]


class FakeEvent:
    def __init__(self, name="E"):
        self.name = name
        self.flag = False

    def set(self):
        SCHED.point("set:" + self.name)
        self.flag = True

    def clear(self):
        SCHED.point("clear:" + self.name)
        self.flag = False

    def is_set(self):
        SCHED.point("is_set:" + self.name)
        return self.flag

    def wait(self, timeout=None):
        SCHED.point("wait:" + self.name)
        if not self.flag:
            SCHED.block(lambda: self.flag, "wait:" + self.name)
        return True


class FakeSemaphore:
    def __init__(self, value=1):
        self.v = self.init = value

    def acquire(self, block=True, timeout=None):
        SCHED.point("sem.acquire")
        if self.v <= 0:
            SCHED.block(lambda: self.v > 0, "semaphore")
        self.v -= 1
        return True

    def release(self):
        SCHED.point("sem.release")
        if self.v >= self.init:
            raise ValueError("Semaphore released too many times")
        self.v += 1


class FakeProcess:
    def __init__(self, target=None, args=()):
        self.target, self.args = target, args
        self.t = None
        self.terminated = False
        self.joined = False

    def start(self):
        fn = self.target.__func__
        obj = copy.deepcopy(self.target.__self__)  # fork: a private copy of the event handler
        args = self.args
        self.t = SCHED.spawn(lambda: fn(obj, *args))
        self.t.start()

    def is_alive(self):
        return self.t is not None and not self.t.done and not self.terminated

    def terminate(self):
        self.terminated = True

    def join(self, timeout=None):
        self.joined = True

    def kill(self):
        self.terminated = True


_event_counter = [0]


def or_event_factory():
    _event_counter[0] += 1
    return FakeEvent("OR%d" % _event_counter[0])


def install(chooser):
    """Patch the two jellyfysh modules; returns (sched, uninstall)."""
    global SCHED
    import jellyfysh.mediator.multi_process_mediator.multi_process_mediator as mpm
    import jellyfysh.mediator.multi_process_mediator.or_event as ore
    SCHED = Sched(chooser)
    saved = (mpm.multiprocessing, mpm.connection, ore.Event)
    fake = FakeMP()
    mpm.multiprocessing = fake
    mpm.connection = FakeConnection
    ore.Event = or_event_factory
    SCHED.register_main()
    sched = SCHED

    def uninstall():
        global SCHED
        mpm.multiprocessing, mpm.connection, ore.Event = saved
        sched.kill_all()
        SCHED = None
    return sched, uninstall
