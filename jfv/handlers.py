"""Harness for driving single real event handlers (send_event_time + send_out_state) with scripted draws."""
import copy

from .core import HarnessError
from .seam import Seam


def atom_branch(ident, pos, charge, vel=None, stamp=(0.0, 0.0)):
    from jellyfysh.base.node import Node
    from jellyfysh.base.unit import Unit
    from jellyfysh.base.time import Time
    return Node(Unit((ident,), list(pos), charge=charge, velocity=None if vel is None else list(vel),
                     time_stamp=None if vel is None else Time(*stamp)), weight=1)


def molecule_branch(root_id, positions, charges, active=None, vel=None, stamp=(0.0, 0.0), L=1.0):
    """Composite object with equal weights; root position = barycentre (positions must not straddle the boundary)."""
    from jellyfysh.base.node import Node
    from jellyfysh.base.unit import Unit
    from jellyfysh.base.time import Time
    n = len(positions)
    dim = len(positions[0])
    bary = [sum(p[d] for p in positions) / n for d in range(dim)]
    rv = None if active is None else [v / n for v in vel]
    root = Node(Unit((root_id,), bary, charge=None, velocity=rv, time_stamp=None if active is None else Time(*stamp)),
                weight=1)
    for i, (p, c) in enumerate(zip(positions, charges)):
        moving = active == i
        root.add_child(Node(Unit((root_id, i), list(p), charge=c, velocity=list(vel) if moving else None,
                                 time_stamp=Time(*stamp) if moving else None), weight=1.0 / n))
    return root


def leaves(node):
    if not node.children:
        yield node
    for c in node.children:
        yield from leaves(c)


def moving_leaves(state):
    return sorted(l.value.identifier for r in state for l in leaves(r) if l.value.velocity is not None)


class Script:
    """Answers: expovariate -> E; the k-th uniform -> a + (b - a) * us[k] (last value repeated); choice/randint -> 0."""

    def __init__(self, E, us):
        self.E = E
        self.us = list(us)
        self.n_uniform = 0
        self.n_expo = 0

    def __call__(self, kind, args, index):
        if kind == "expovariate":
            self.n_expo += 1
            return self.E
        if kind == "uniform":
            u = self.us[min(self.n_uniform, len(self.us) - 1)]
            self.n_uniform += 1
            return args[0] + (args[1] - args[0]) * u
        if kind == "random":
            u = self.us[min(self.n_uniform, len(self.us) - 1)]
            self.n_uniform += 1
            return u
        if kind in ("choice", "randint"):
            return 0 if kind == "choice" else args[0]
        raise HarnessError("unscripted draw random.%s" % kind)


def run_event(handler, in_state, E, us, out_args=None):
    """Deep-copies the in-state, runs send_event_time under the script, then send_out_state (with out_args if the
    handler takes any).  Returns (event time, out-state, script)."""
    st = copy.deepcopy(in_state)
    script = Script(E, us)
    with Seam(script):
        ret = handler.send_event_time(st)
        t = ret[0] if isinstance(ret, tuple) else ret
        n_before = script.n_uniform
        # uniforms drawn in send_event_time (none for the handlers used here) do not shift the out-state script
        script.n_uniform = 0 if n_before == 0 else n_before
        out = handler.send_out_state(*(out_args or ()))
    return t, out, script
