"""Small helpers to put the jellyfysh package into a defined global state."""


def init_setting(lengths, cubic=False, beta=1.0, roots=2, per_root=1, levels=None):
    """Reset and initialise jellyfysh.setting with a hypercuboid (or hypercubic) box."""
    import jellyfysh.setting as setting
    from jellyfysh.setting import hypercubic_setting, hypercuboid_setting
    setting.reset()
    try:
        from jellyfysh.activator.tagger.factor_type_maps import FactorTypeMaps
        FactorTypeMaps._instance = None
    except Exception:
        pass
    if cubic:
        hypercubic_setting.HypercubicSetting(beta=beta, dimension=len(lengths), system_length=lengths[0])
    else:
        hypercuboid_setting.HypercuboidSetting(beta=beta, dimension=len(lengths), system_lengths=list(lengths))
    setting.set_number_of_root_nodes(roots)
    setting.set_number_of_nodes_per_root_node(per_root)
    setting.set_number_of_node_levels(levels if levels is not None else (1 if per_root == 1 else 2))
    return setting


def deterministic_cell_order():
    """Cell objects are hashed by address, so the iteration order of the sets returned by nearby_cells() -- and with it
    the order in which the activator hands out event handlers -- differs from one build of a mediator to the next.
    The order is unspecified by the code; the harness pins it (hash by cell identifier) where two separately built
    mediators must be compared event handler by event handler (C20)."""
    from jellyfysh.activator.internal_state.cell_occupancy.cells.cells import Cell
    Cell.__hash__ = lambda self: hash(self.identifier)
