"""Process-pool helpers (fork context, ordered merge, so that verdict and counts do not depend on worker timing)."""
import itertools
import multiprocessing
import os

from .core import HarnessError

_FN = None


def _call(chunk):
    return _FN(chunk)


def chunks(iterable, size):
    it = iter(iterable)
    while True:
        block = list(itertools.islice(it, size))
        if not block:
            return
        yield block


def pmap(fn, items, cores, ordered=True):
    """Apply fn to every item in forked workers; yields results in input order. fn must be a module-level or closure
    callable (fork makes closures fine); results must be picklable."""
    global _FN
    items = list(items)
    if cores <= 1 or len(items) <= 1:
        for it in items:
            yield fn(it)
        return
    _FN = fn
    ctx = multiprocessing.get_context("fork")
    with ctx.Pool(min(cores, len(items))) as pool:
        for r in (pool.imap(_call, items) if ordered else pool.imap_unordered(_call, items)):
            yield r
    _FN = None


def guarded(check_case):
    """An exception escaping the code under test on an enumerated case is a verdict, not a harness error."""
    def f(case):
        try:
            return check_case(case)
        except HarnessError:
            raise
        except Exception as e:
            import traceback
            tb = traceback.extract_tb(e.__traceback__)
            inside = [fr for fr in tb if "/jellyfysh/" in fr.filename and "/jfv/" not in fr.filename]
            if not inside:
                raise HarnessError("exception in the checking code itself (no frame of the code under test): %r\n%s"
                                   % (e, "".join(traceback.format_tb(e.__traceback__)[-3:])))
            where = inside[-1]
            return None, [("uncaught-exception", "%r raised at %s:%d (%s) on case %r"
                           % (e, where.filename, where.lineno, where.name, case))]
    return f


def run_cases(check_case, cases, cores, chunk=2000, max_fail=200):
    """Lattice driver. check_case(case) -> (signature or None, [(key, message), ...]).
    Returns (evaluations, set of signatures, failures [(key, case, message)])."""
    def work(block):
        sigs, fails = set(), []
        for case in block:
            sig, bad = guarded(check_case)(case)
            if sig is not None:
                sigs.add(sig)
            for key, msg in bad:
                if len(fails) < max_fail:
                    fails.append((key, case, msg))
        return len(block), sigs, fails
    n, sigs, fails = 0, set(), []
    for k, s, f in pmap(work, chunks(cases, chunk), cores):
        n += k
        sigs |= s
        fails.extend(f)
    return n, sigs, fails
