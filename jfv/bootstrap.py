"""Make `import jellyfysh` resolve to /repo's *current working tree* with freshly built C extensions.

* /venv/lib/python3.12/site-packages/jellyfysh is a stale copy that shadows the editable install -> put /repo first.
* the prebuilt cffi .so files lying in /repo/jellyfysh/** go stale when a .c file is edited -> rebuild the three
  extensions from the current sources into a scratch directory (outside /repo and /verif, removed at exit) and
  pre-seed sys.modules with them before jellyfysh is imported.

Child interpreters (crashx resume workers, spawned pools) reuse the build of the parent through JFV_BUILD_DIR.
"""
import atexit
import glob
import importlib.util
import os
import shutil
import subprocess
import sys
import tempfile

REPO = os.environ.get("JFV_REPO", "/repo")
PYTHON = "/venv/bin/python"

EXTENSIONS = [
    ("jellyfysh.scheduler.heap_scheduler._heap",
     "jellyfysh/scheduler/heap_scheduler", "heap_build.py"),
    ("jellyfysh.potential.merged_image_coulomb_potential._merged_image_coulomb_potential",
     "jellyfysh/potential/merged_image_coulomb_potential", "merged_image_coulomb_potential_build.py"),
    ("jellyfysh.potential.inverse_power_coulomb_bounding_potential._inverse_power_coulomb_bounding_potential",
     "jellyfysh/potential/inverse_power_coulomb_bounding_potential",
     "inverse_power_coulomb_bounding_potential_build.py"),
]

_done = False
build_dir = None


class BuildError(Exception):
    pass


def _build(target):
    procs = []
    for _, rel, script in EXTENSIONS:
        os.makedirs(os.path.join(target, rel), exist_ok=True)
        for f in os.listdir(os.path.join(REPO, rel)):
            if f.endswith((".c", ".h")) and not f.startswith("_") or f == script:
                shutil.copy2(os.path.join(REPO, rel, f), os.path.join(target, rel, f))
    for _, rel, script in EXTENSIONS:
        procs.append((script, subprocess.Popen([PYTHON, os.path.join(rel, script)], cwd=target,
                                               stdout=subprocess.PIPE, stderr=subprocess.STDOUT)))
    for script, p in procs:
        out, _ = p.communicate()
        if p.returncode != 0:
            raise BuildError("building %s failed:\n%s" % (script, out.decode(errors="replace")[-3000:]))


def boot():
    """Idempotent. Returns the scratch build directory."""
    global _done, build_dir
    if _done:
        return build_dir
    sys.dont_write_bytecode = True
    if sys.path[0] != REPO:
        sys.path.insert(0, REPO)
    inherited = os.environ.get("JFV_BUILD_DIR")
    if inherited and os.path.isdir(inherited):
        build_dir = inherited
    else:
        build_dir = tempfile.mkdtemp(prefix="jfv_build_")
        owner = os.getpid()

        def _cleanup():
            if os.getpid() == owner:
                shutil.rmtree(build_dir, ignore_errors=True)
        atexit.register(_cleanup)
        _build(build_dir)
        os.environ["JFV_BUILD_DIR"] = build_dir
    for name, rel, _ in EXTENSIONS:
        found = glob.glob(os.path.join(build_dir, rel, name.rsplit(".", 1)[1] + "*.so"))
        if not found:
            raise BuildError("no shared object for %s in %s" % (name, build_dir))
        spec = importlib.util.spec_from_file_location(name, found[0])
        mod = importlib.util.module_from_spec(spec)
        spec.loader.exec_module(mod)
        sys.modules[name] = mod
    import logging
    logging.disable(logging.WARNING)  # jellyfysh logs configuration warnings for harness templates; not a verdict
    import jellyfysh
    if not os.path.realpath(jellyfysh.__file__).startswith(os.path.realpath(REPO) + os.sep):
        raise BuildError("jellyfysh imported from %s, not from %s" % (jellyfysh.__file__, REPO))
    _done = True
    return build_dir


def reset_globals():
    """Reset the module-level state of jellyfysh between configurations."""
    import jellyfysh.setting as setting
    from jellyfysh.base import factory
    setting.reset()
    factory.used_sections.clear() if hasattr(factory, "used_sections") else None
    try:
        from jellyfysh.activator.tagger.factor_type_maps import FactorTypeMaps
        FactorTypeMaps._instance = None
    except Exception:
        pass
