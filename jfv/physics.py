"""Independent physics used as oracle (written from the models, not from the code under test).

Conventions (from the documentation of jellyfysh): separation = target - active; the active unit moves along +direction
with the given speed, so after time t the separation component along the direction is s_d - speed * t.
"""
import math


# ---- radial energies -------------------------------------------------------------------------------------------------
def u_inverse_power(k, p):
    return lambda r: k / r ** p


def u_lennard_jones(k, sigma):
    return lambda r: k * ((sigma / r) ** 12 - (sigma / r) ** 6)


def u_displaced_even_power(k, r0, p):
    return lambda r: k * (r - r0) ** p


def du_inverse_power(k, p):
    return lambda r: -p * k / r ** (p + 1)


def du_lennard_jones(k, sigma):
    return lambda r: k * (-12 * sigma ** 12 / r ** 13 + 6 * sigma ** 6 / r ** 7)


def du_displaced_even_power(k, r0, p):
    return lambda r: p * k * (r - r0) ** (p - 1)


# ---- cumulative uphill energy along a straight path -----------------------------------------------------------------
def uphill_open(U, x, rho2, D, r_crit=()):
    """Sum of the positive increments of U(r(t)), r(t)^2 = rho2 + (x - t)^2, for t in [0, D] (non-periodic).
    r_crit: radii at which U'(r) changes sign.  Returns (uphill, max |U| met)."""
    bps = {0.0, D}
    if 0.0 < x < D:
        bps.add(x)
    for rc in r_crit:
        if rc * rc > rho2:
            w = math.sqrt(rc * rc - rho2)
            for t in (x - w, x + w):
                if 0.0 < t < D:
                    bps.add(t)
    ts = sorted(bps)
    tot = 0.0
    umax = 0.0
    prev = U(math.sqrt(rho2 + (x - ts[0]) ** 2))
    umax = abs(prev)
    for b in ts[1:]:
        cur = U(math.sqrt(rho2 + (x - b) ** 2))
        umax = max(umax, abs(cur))
        if cur > prev:
            tot += cur - prev
        prev = cur
    return tot, umax


def total_uphill_open(U, x, rho2, r_crit=(), far=1e9):
    return uphill_open(U, x, rho2, far, r_crit)


def uphill_periodic_1overr(c, x, rho2, D, L):
    """Uphill energy of c / r with the nearest image along the direction of motion for t in [0, D]: the relevant
    coordinate is the distance f(t) of x - t to the nearest multiple of L (a continuous triangle wave), U = c /
    sqrt(rho2 + f^2) is monotone between the points where f = 0 (closest approach) and f = L/2 (image switch)."""
    def f(t):
        return abs(((x - t + L / 2.0) % L) - L / 2.0)

    def U(t):
        ff = f(t)
        return c / math.sqrt(rho2 + ff * ff)
    bps = {0.0, D}
    n = int(D / L) + 3
    for k in range(-2, n + 1):
        for t in (x + k * L, x + L / 2.0 + k * L):
            if 0.0 < t < D:
                bps.add(t)
    ts = sorted(bps)
    tot = 0.0
    prev = U(ts[0])
    umax = abs(prev)
    for t in ts[1:]:
        cur = U(t)
        umax = max(umax, abs(cur))
        if cur > prev:
            tot += cur - prev
        prev = cur
    return tot, umax


# ---- hard cores ------------------------------------------------------------------------------------------------------
def first_time_at_distance(v, s, R, largest=False):
    """Smallest (or largest) root t of |s - v t| = R in extended precision; None if there is no real root."""
    from decimal import Decimal, getcontext
    getcontext().prec = 60
    vv = sum(Decimal(a) * Decimal(a) for a in v)
    vs = sum(Decimal(a) * Decimal(b) for a, b in zip(v, s))
    ss = sum(Decimal(a) * Decimal(a) for a in s)
    disc = vs * vs - vv * (ss - Decimal(R) * Decimal(R))
    if disc < 0:
        return None
    root = disc.sqrt()
    t = (vs + root) / vv if largest else (vs - root) / vv
    return float(t)
