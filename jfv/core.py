"""Check runner: tiers, seeds, violations -> replay files, known findings, evidence files, exit codes.

exit 0  property held on everything explored (KNOWN-FINDING lines may be printed)
exit 1  at least one violation that known_findings.json does not list; prints
        `VIOLATION property=<id> replay=<path>`
exit 2  harness / internal error (never a verdict)
"""
import hashlib
import importlib
import json
import os
import subprocess
import sys
import time
import traceback

VERIF = os.path.dirname(os.path.dirname(os.path.abspath(__file__)))
# (tools/seedrun.py redirects the evidence of runs against a deliberately broken tree away from the committed files)
EVIDENCE_DIR = os.environ.get("JFV_EVIDENCE_DIR") or os.path.join(VERIF, "evidence")
REPLAY_DIR = os.path.join(VERIF, "replays")
KNOWN_FILE = os.path.join(VERIF, "known_findings.json")
SCHEMA = "/root/.vp/EVIDENCE.schema.json"
MAX_REPORTED = 3


class HarnessError(Exception):
    """Something is wrong with the machinery itself (not a verdict about the property)."""


class Violation:
    """One failing case. `key` identifies the *class* of failure for known-findings matching,
    `case` is everything needed to replay it without the explorer, `message` says what failed."""

    def __init__(self, key, case, message):
        self.key = key
        self.case = case
        self.message = message

    def to_json(self, prop):
        return {"property": prop, "key": self.key, "message": self.message, "case": self.case}


class Ctx:
    def __init__(self, prop, tier, seed):
        self.prop = prop
        self.tier = tier
        self.seed = seed
        self.thorough = tier == "thorough"
        self.cores = int(os.environ.get("VERIF_CORES", "0")) or min(16, os.cpu_count() or 1)

    def pick(self, quick, thorough):
        return thorough if self.thorough else quick


class Result:
    def __init__(self):
        self.violations = []
        self.coverage = {}
        self.assumptions = []
        self.level = "exploration"
        self.notes = []

    def add(self, key, case, message):
        self.violations.append(Violation(key, case, message))


def load_known():
    if not os.path.exists(KNOWN_FILE):
        return []
    with open(KNOWN_FILE) as f:
        return json.load(f).get("findings", [])


def _jsonable(x):
    if isinstance(x, float):
        if x != x or x in (float("inf"), float("-inf")):
            return repr(x)
        return x
    if isinstance(x, (str, int, bool)) or x is None:
        return x
    if isinstance(x, dict):
        return {str(k): _jsonable(v) for k, v in x.items()}
    if isinstance(x, (list, tuple, set, frozenset)):
        return [_jsonable(v) for v in x]
    return repr(x)


def write_replay(prop, v):
    d = os.path.join(REPLAY_DIR, prop)
    os.makedirs(d, exist_ok=True)
    body = json.dumps(_jsonable(v.to_json(prop)), indent=1, sort_keys=True)
    name = hashlib.sha1(body.encode()).hexdigest()[:16] + ".json"
    path = os.path.join(d, name)
    with open(path, "w") as f:
        f.write(body + "\n")
    return path


def validate_evidence(path):
    """Validate with jsonschema from the tooling venv if it is there (it is not importable in /venv)."""
    if not os.path.exists(SCHEMA):
        return None
    code = ("import json,sys,jsonschema;"
            "jsonschema.validate(json.load(open(sys.argv[1])), json.load(open(sys.argv[2])))")
    try:
        p = subprocess.run(["python3-vt", "-c", code, path, SCHEMA], capture_output=True, text=True, timeout=60)
    except (OSError, subprocess.TimeoutExpired):
        return None
    if p.returncode != 0:
        raise HarnessError("evidence file %s does not validate:\n%s" % (path, p.stderr[-2000:]))
    return True


def write_evidence(ctx, res, wall, n_viol, n_known):
    os.makedirs(EVIDENCE_DIR, exist_ok=True)
    cov = dict(res.coverage)
    ev = {
        "property_id": ctx.prop,
        "tier": ctx.tier,
        "seed": ctx.seed,
        "level": res.level,
        "coverage": _jsonable(cov),
        "assumptions": list(res.assumptions),
        "wall_s": round(wall, 3),
        "violations": n_viol,
        "known_findings_matched": n_known,
        "notes": list(res.notes),
    }
    path = os.path.join(EVIDENCE_DIR, ctx.prop + ".json")
    tmp = path + ".tmp"
    with open(tmp, "w") as f:
        json.dump(ev, f, indent=1, sort_keys=True)
        f.write("\n")
    os.replace(tmp, path)
    validate_evidence(path)
    return path


def _module(prop):
    return importlib.import_module("jfv.checks." + prop.lower())


def run_check(prop, tier, seed):
    t0 = time.time()
    ctx = Ctx(prop, tier, seed)
    from . import bootstrap
    bootstrap.boot()
    mod = _module(prop)
    res = mod.run(ctx)
    known = [k for k in load_known() if k.get("property") == prop and k.get("status") == "known"]
    new, matched = [], {}
    for v in res.violations:
        hit = next((k for k in known if k["key"] == v.key), None)
        if hit is not None:
            matched.setdefault(hit["key"], [hit, 0])[1] += 1
        else:
            new.append(v)
    # A violation is only believed if it reproduces from its replay case (twice, identically).
    confirmed = []
    unreproduced = []
    seen_keys = {}
    seen_msgs = set()
    for v in new:
        if (v.key, v.message) in seen_msgs:
            continue
        seen_msgs.add((v.key, v.message))
        if seen_keys.get(v.key, 0) >= MAX_REPORTED:
            seen_keys[v.key] += 1
            continue
        seen_keys[v.key] = seen_keys.get(v.key, 0) + 1
        if hasattr(mod, "replay"):
            r1 = mod.replay(ctx, v.case)
            r2 = mod.replay(ctx, v.case)
            if not r1 or not r2 or r1 != r2:
                unreproduced.append((v, r1, r2))
                continue
        confirmed.append(v)
    if unreproduced and not confirmed:
        v, r1, r2 = unreproduced[0]
        raise HarnessError("violation %s of %s did not reproduce deterministically from its replay case "
                           "(%r vs %r): %s" % (v.key, prop, r1, r2, v.message))
    if unreproduced:
        # observed in the sweep but not from the isolated case (e.g. state of the code under test carried over from an
        # earlier case of the same worker): never reported as a violation; the reproducible ones below are
        res.notes.append("%d further observations did not reproduce from their isolated replay case and are not "
                         "reported (first: %s)" % (len(unreproduced), unreproduced[0][0].message[:200]))
    for key, (hit, n) in sorted(matched.items()):
        print("KNOWN-FINDING: property=%s %s (%d matching cases this run; key=%s)"
              % (prop, hit.get("what", ""), n, key))
    wall = time.time() - t0
    res.coverage.setdefault("violation_classes", sorted(set(v.key for v in res.violations)))
    write_evidence(ctx, res, wall, len(new), sum(n for _, n in matched.values()))
    for note in res.notes:
        print("note:", note)
    c = res.coverage
    print("%s tier=%s seed=%d wall=%.1fs %s" % (
        prop, tier, seed, wall,
        " ".join("%s=%s" % (k, c[k]) for k in ("evaluations", "distinct_nontrivial", "states", "transitions",
                                                  "traces_validated_against_impl", "exhaustive") if k in c)))
    if confirmed:
        for v in confirmed:
            path = write_replay(prop, v)
            print("VIOLATION property=%s replay=%s" % (prop, path))
            print("  key=%s: %s" % (v.key, v.message[:600]))
        extra = len(new) - len(confirmed)
        if extra > 0:
            print("  (+%d further violating cases of the same classes not written out)" % extra)
        return 1
    return 0


def run_replay(prop, path):
    from . import bootstrap
    bootstrap.boot()
    mod = _module(prop)
    with open(path) as f:
        doc = json.load(f)
    ctx = Ctx(prop, "quick", 0)
    r = mod.replay(ctx, doc["case"])
    if r:
        print("VIOLATION property=%s replay=%s" % (prop, path))
        print("  reproduced:", r)
        return 1
    print("replay of %s: property holds on this case" % path)
    return 0


def main(argv=None):
    import argparse
    ap = argparse.ArgumentParser(prog="check")
    ap.add_argument("prop")
    ap.add_argument("--tier", default=os.environ.get("VERIF_TIER", "quick"), choices=["quick", "thorough"])
    ap.add_argument("--replay")
    a = ap.parse_args(argv)
    prop = a.prop.upper()
    try:
        seed = int(os.environ.get("VERIF_SEED", "0") or 0)
    except ValueError:
        seed = 0
    try:
        if a.replay:
            return run_replay(prop, a.replay)
        return run_check(prop, a.tier, seed)
    except HarnessError as e:
        print("HARNESS-ERROR property=%s: %s" % (prop, e))
        return 2
    except Exception:
        traceback.print_exc()
        print("HARNESS-ERROR property=%s: unexpected exception in the machinery" % prop)
        return 2
