"""Float helpers: neighbours, ulps, exact rationals, hex transport."""
import math
from fractions import Fraction

INF = math.inf


def up(x, k=1):
    for _ in range(k):
        x = math.nextafter(x, INF)
    return x


def down(x, k=1):
    for _ in range(k):
        x = math.nextafter(x, -INF)
    return x


def around(x, k=2):
    """x and its k neighbours on both sides."""
    out = [x]
    a = b = x
    for _ in range(k):
        a = math.nextafter(a, -INF)
        b = math.nextafter(b, INF)
        out += [a, b]
    return out


def F(x):
    return Fraction(x)


def hx(x):
    return float(x).hex()


def unhx(s):
    return float.fromhex(s) if isinstance(s, str) else float(s)


def ulp(x):
    return math.ulp(x)


def uniq(seq):
    seen, out = set(), []
    for x in seq:
        k = (x, math.copysign(1.0, x)) if isinstance(x, float) else x
        if k not in seen:
            seen.add(k)
            out.append(x)
    return out


def enc(x):
    """JSON-safe, bit-exact encoding of nested cases (floats as 'f:<hex>')."""
    if isinstance(x, bool) or x is None or isinstance(x, (int, str)):
        return x
    if isinstance(x, float):
        return "f:" + x.hex()
    if isinstance(x, (list, tuple)):
        return [enc(y) for y in x]
    if isinstance(x, dict):
        return {str(k): enc(v) for k, v in x.items()}
    return repr(x)


def dec(x):
    if isinstance(x, str) and x.startswith("f:"):
        return float.fromhex(x[2:])
    if isinstance(x, list):
        return tuple(dec(y) for y in x)
    if isinstance(x, dict):
        return {k: dec(v) for k, v in x.items()}
    return x
