"""Engine A -- deviation-bounded exploration of the real mediator loop.

An execution = a real mediator (cloned from a per-worker dill template built by the real factory) run for H legs with
every random draw answered by a scripted policy: baseline answer everywhere except at the listed deviations
{draw index: alternative}.  explore() enumerates all executions with <= k deviations around each of four baselines.
Monitors (invariants of C07, C08, C09, C11, C12, C13, C17) observe the run through public seams only:
activator.get_event_handlers_to_run / get_trashable_events, scheduler.push_event / get_succeeding_event /
trash_event, state_handler.insert_into_global_state / extract_global_state, input_output_handler.write.
"""
import collections
import contextlib
import hashlib
import io
import math

from .core import HarnessError
from .seam import Seam


_MISSING = object()


class Pause(Exception):
    """Raised by the harness at a leg boundary to stop Mediator.run()."""


class ResumeNow(Exception):
    """Raised by the harness at a leg boundary: dump the mediator (dill), restore it, continue on the restored one."""


# ----------------------------------------------------------------------------------------------------------------------
# answer alphabets
def alphabet(kind, args):
    """All answers for one draw; index 0 is the default of baseline B0."""
    if kind == "expovariate":
        lam = args[0]
        return [-math.log(1.0 - p) / lam for p in (0.5, 0.02, 0.98)]
    if kind in ("uniform", "random"):
        a, b = args if kind == "uniform" else (0.0, 1.0)
        return [a + (b - a) * u for u in (0.25, 0.75)]
    if kind == "randint":
        a, b = args
        vals = list(range(a, b + 1))
    elif kind == "choice":
        vals = list(range(args[0]))
    else:
        raise HarnessError("no alphabet for random.%s" % kind)
    if len(vals) > 5:
        vals = [vals[0], vals[len(vals) // 2], vals[-1]]
    return vals


def _mix(b, i):
    """Small deterministic hash (baseline id, draw index) -> integer; independent of PYTHONHASHSEED and VERIF_SEED."""
    x = (b * 0x9E3779B1 + i * 0x85EBCA77 + 0x165667B1) & 0xFFFFFFFF
    x ^= x >> 15
    x = (x * 0x2C1B3C6D) & 0xFFFFFFFF
    x ^= x >> 12
    x = (x * 0x297A2D39) & 0xFFFFFFFF
    x ^= x >> 15
    return x


def key_hash(key):
    import zlib
    return zlib.crc32(repr(key).encode())


QUIET, BUSY = 4, 5  # baseline ids 1..3 are hashed mixtures


class Policy:
    """Answers every draw from its *context key* (leg, phase, tagger tag, in-state identifiers, kind, ordinal), not from
    its position in the global draw sequence: the order in which the activator hands out event handlers depends on the
    iteration order of sets of Cell objects (hashed by address), which differs between clones of one mediator."""

    def __init__(self, baseline, deviations):
        self.baseline = baseline
        self.deviations = dict(deviations)
        self.draws = []  # (key, number of alternatives, chosen index)
        self.context = lambda kind: ("?", kind)
        self.on_answer = None
        self.hit = set()

    def __call__(self, kind, args, index):
        alts = alphabet(kind, args)
        key = self.context(kind)
        if self.baseline == 0:
            base = 0
        elif self.baseline == QUIET:
            # every energy budget large (98 % quantile): the fewest interaction events, the longest free flights
            base = 2 if kind == "expovariate" else 0
        elif self.baseline == BUSY:
            base = 1 if kind == "expovariate" else len(alts) - 1
        else:
            base = _mix(self.baseline, key_hash(key)) % len(alts)
        if key in self.deviations:
            k = self.deviations[key]
            self.hit.add(key)
            if not 0 <= k < len(alts) - 1:
                raise HarnessError("replay divergence: deviation %d at draw %r but only %d alternatives (%s%r)"
                                   % (k, key, len(alts), kind, args))
            # deviation k means "the k-th answer different from the baseline answer"
            choice = [j for j in range(len(alts)) if j != base][k]
        else:
            choice = base
        self.draws.append((key, len(alts), choice))
        if self.on_answer is not None:
            self.on_answer(alts[choice])
        return alts[choice]

    def assert_all_hit(self):
        missing = set(k for k in self.deviations if k[0] != "resume") - self.hit
        if missing:
            raise HarnessError("replay divergence: the deviating draws %r were never reached" % (sorted(missing),))


# ----------------------------------------------------------------------------------------------------------------------
def snapshot(sh):
    """Full global state: identifier -> (position, velocity or None, (q, r) or None, charge)."""
    out = {}

    def rec(c):
        u = c.value
        out[u.identifier] = (tuple(u.position), None if u.velocity is None else tuple(u.velocity),
                             None if u.time_stamp is None else (u.time_stamp.quotient, u.time_stamp.remainder),
                             None if u.charge is None else tuple(sorted(u.charge.items())))
        for ch in c.children:
            rec(ch)
    for r in sh.extract_global_state():
        rec(r)
    return out


def tdiff(a, b):
    """Difference of two (q, r) pairs as float (quotients first: exact for integers)."""
    return (a[0] - b[0]) + (a[1] - b[1])


def wrapdiff(a, b, L):
    d = (a - b) % L
    return min(d, L - d)


INTERACTION_TAGGERS = ("FactorTypeMapInStateTagger", "CellVetoTagger", "CellBoundingPotentialTagger",
                       "ExcludedCellsTagger", "SurplusCellsTagger")
CELL_BOUNDARY_TAGGER = "CellBoundaryTagger"


def tagger_kind(tg):
    names = [c.__name__ for c in type(tg).__mro__]
    if any(n in INTERACTION_TAGGERS for n in names):
        return "interaction"
    if CELL_BOUNDARY_TAGGER in names:
        return "cell_boundary"
    return "other"


BOUND_RECORDS = []
_PROBED = []


def install_bound_probe():
    """Replace the module-level bindings of bounding_potential_warning in the event-handler modules by a recorder
    (handler object, bounding rate, true rate).  Idempotent; forked workers inherit it."""
    import importlib
    import sys
    if _PROBED:
        return
    mods = ["jellyfysh.event_handler.abstracts.event_handler_with_bounding_potential",
            "jellyfysh.event_handler.fixed_separations_event_handler_with_piecewise_constant_bounding_potential",
            "jellyfysh.event_handler.two_composite_object_summed_bounding_potential_event_handler",
            "jellyfysh.event_handler.two_leaf_unit_event_handler_with_piecewise_constant_bounding_potential",
            "jellyfysh.event_handler.root_unit_active_two_composite_object_summed_bounding_potential_event_handler",
            "jellyfysh.event_handler.composite_object_cell_veto_event_handler",
            "jellyfysh.event_handler.two_composite_object_cell_bounding_potential_event_handler"]

    def probe(event_handler_name, bounding_derivative, real_derivative):
        h = sys._getframe(1).f_locals.get("self")
        bp = type(getattr(h, "_bounding_potential", None)).__name__
        BOUND_RECORDS.append((event_handler_name, bp, bounding_derivative, real_derivative))
    for m in mods:
        try:
            mod = importlib.import_module(m)
        except Exception:
            continue
        if hasattr(mod, "bounding_potential_warning"):
            mod.bounding_potential_warning = probe
            _PROBED.append(m)


class Execution:
    """One monitored run of a real mediator."""

    def __init__(self, med, policy, horizon, monitors, info=None):
        import jellyfysh.setting as setting
        from jellyfysh.setting import hypercuboid_setting as hs
        self.med = med
        self.policy = policy
        self.horizon = horizon
        self.mon = set(monitors)
        self.info = info or {}
        self.sh = med._state_handler
        self.act = med._activator
        self.sch = med._scheduler
        self.ioh = med._input_output_handler
        self.setting = setting
        self.L = tuple(hs.system_lengths)
        self.dim = setting.dimension
        self.nlev = setting.number_of_node_levels
        self.npr = setting.number_of_nodes_per_root_node
        self.nroots = setting.number_of_root_nodes
        if self.info.get("preset_counters") and hasattr(self.sch, "_minimal_valid_counter"):
            # a run that has already trashed ~2^32 events per handler: the lazy-deletion counters of the heap scheduler
            # are about to leave the range of the C integer (OverflowError -> delete_events -> counter reset)
            for h in self.act.get_event_handlers():
                self.sch._minimal_valid_counter[h] = int(self.info["preset_counters"])
        self.violations = []  # (key, message)
        self.commits = []  # (handler class, tagger tag, (q, r) event time, out-state digestable)
        self.writes = []  # (output handler name, (q, r) time of the triggering event, snapshot)
        self.legs = 0
        self.pending = {}  # handler -> (tagger, identifiers tuple or None, basis snapshot, candidate (q, r))
        self.candidate = {}  # handler -> (q, r) of its live candidate time
        self.current = None
        self.current_time = None
        self.last_time = None
        self.after_prev = None
        self.ended = False
        self.exception = None
        self.started = False
        self.speed = None
        self.stats = collections.Counter()
        self.c18 = {}  # cell-veto handler -> (active cell at proposal, target cell, offset)
        self.initial = snapshot(self.sh)
        self.tagger_of = self.act._event_handler_tagger_dictionary
        self.start_handler = self.act._start_of_run_event_handler
        if "C04" in self.mon:
            install_bound_probe()
            del BOUND_RECORDS[:]
        self._orig_attrs = {}
        self.resume_at = set(k[1] for k in policy.deviations if k[0] == "resume")
        self.resumed = 0
        self.ctx = None
        self.handler_draws = {}
        self._pending_answer = None
        self._snap = None
        self.ordinals = collections.Counter()
        policy.context = self.draw_context
        policy.on_answer = self._record_answer
        self._install()

    # -----------------------------------------------------------------------------------------------------------------
    def V(self, key, msg):
        if len(self.violations) < 50:
            self.violations.append((key, msg))

    def draw_context(self, kind):
        if self.ctx is None:
            base = (self.legs, "global", None, None)
        else:
            phase, h = self.ctx
            p = self.pending.get(h)
            tg = self.tagger_of.get(h)
            base = (self.legs, phase, getattr(tg, "tag", type(h).__name__), None if p is None else p[1])
        self.ordinals[base] += 1
        if self.ctx is not None:
            self.handler_draws.setdefault(self.ctx[1], []).append([self.ctx[0], kind, None])
            self._pending_answer = self.handler_draws[self.ctx[1]][-1]
        return base + (kind, self.ordinals[base] - 1)

    def _record_answer(self, answer):
        if self._pending_answer is not None:
            self._pending_answer[2] = answer
            self._pending_answer = None

    def _wrap_handler(self, h):
        ex = self
        for phase, name in (("time", "send_event_time"), ("out", "send_out_state")):
            real = getattr(h, name)
            # some handlers bind these names as instance attributes themselves: remember what was there
            self._orig_attrs[(id(h), name)] = h.__dict__.get(name, _MISSING)

            def call(*a, _real=real, _phase=phase, **k):
                prev = ex.ctx
                ex.ctx = (_phase, h)
                if _phase == "time":
                    ex.handler_draws[h] = []
                try:
                    if "C18" in ex.mon and hasattr(h, "_upper_bound_walker"):
                        return ex.check_c18_call(h, _phase, _real, a, k)
                    return _real(*a, **k)
                finally:
                    ex.ctx = prev
            setattr(h, name, call)

    def _install(self):
        act, sch, sh, ioh = self.act, self.sch, self.sh, self.ioh
        ex = self
        for h in act.get_event_handlers():
            self._wrap_handler(h)
        first = act.get_event_handlers_to_run
        state = {}

        def on_created(res):
            for h, ids in res.items():
                if h in ex.pending:
                    ex.V("C09:handler-reused", "event handler %s handed out again while its previous event is still "
                         "pending" % type(h).__name__)
                ex.pending[h] = [ex.tagger_of[h], None if ids is None else tuple(ids), ex.basis_for(ids), None]

        def wrapper(active_state, preceding):
            if ex.legs + 1 in ex.resume_at and preceding is not None:
                ex.resume_at.discard(ex.legs + 1)
                raise ResumeNow()
            ex.legs += 1
            if ex.legs > ex.horizon:
                raise Pause()
            if preceding is None:
                res = first(active_state, preceding)
                state["upd"] = act.__dict__.get("get_event_handlers_to_run", first)
                act.get_event_handlers_to_run = wrapper
            else:
                res = state.get("upd", first)(active_state, preceding)
            on_created(res)
            if "C11" in ex.mon and ex.commits:
                # right after the activator has updated its internal states, before any handler works with them
                ex._snap = None
                ex.check_c11()
            return res
        act.get_event_handlers_to_run = wrapper
        self._real_get = lambda: state.get("upd", first)

        real_trash = act.get_trashable_events

        def trash(h):
            r = real_trash(h)
            for x in r:
                if x not in ex.pending:
                    ex.V("C09:trash-not-pending", "%s trashed but not pending" % type(x).__name__)
                ex.pending.pop(x, None)
                ex.candidate.pop(x, None)
            return r
        act.get_trashable_events = trash

        real_push = sch.push_event

        def push(time, handler):
            if "C01" in ex.mon:
                ex.check_c01_candidate(handler)
            ex.candidate[handler] = (time.quotient, time.remainder)
            if "C07" in ex.mon and ex.last_time is not None and time.quotient != math.inf:
                # event times never decrease: no candidate may lie before the time the run has already reached
                # (beyond rounding: a displacement of -6e-16 at a grazing contact is the float tie N2)
                back = (ex.last_time[0] - time.quotient) + (ex.last_time[1] - time.remainder)
                if back > 1e-12 * max(1.0, abs(ex.last_time[0])):
                    ex.V("C07:candidate-in-past", "%s proposes an event at %r, %.3e before the time %r the run has "
                         "reached" % (type(handler).__name__, (time.quotient, time.remainder), back, ex.last_time))
            if handler in ex.pending:
                ex.pending[handler][3] = (time.quotient, time.remainder)
            return real_push(time, handler)
        sch.push_event = push

        real_succ = sch.get_succeeding_event

        def succ():
            ex.on_leg()
            h = real_succ()
            ex.current = h
            ex.current_time = ex.candidate.get(h)
            if "C08" in ex.mon:
                # the time under which the scheduler delivers the handler is the time of its live candidate (an older,
                # trashed candidate of the same handler must not be what is delivered)
                last = getattr(sch, "_last_returned_event", None)
                if last is not None and last[0] is not None:
                    got = (last[0].quotient, last[0].remainder)
                    if h not in ex.candidate:
                        ex.V("C08:dead-candidate", "the scheduler delivers %s at %r although its candidate was trashed"
                             % (type(h).__name__, got))
                    elif got != ex.candidate[h]:
                        ex.V("C08:stale-time", "the scheduler delivers %s at time %r, its live candidate (computed from "
                             "the current in-state) is at %r: an older candidate of this handler survived"
                             % (type(h).__name__, got, ex.candidate[h]))
            return h
        sch.get_succeeding_event = succ

        real_ins = sh.insert_into_global_state
        depth = [0]

        def ins(out_state):
            if depth[0]:
                return real_ins(out_state)
            before = snapshot(sh)
            ex.on_commit_before(before)
            depth[0] += 1
            try:
                real_ins(out_state)
            finally:
                depth[0] -= 1
            ex._snap = None
            ex.on_commit_after(before, ex.snap(), out_state)
        sh.insert_into_global_state = ins

        def write(name, *args):
            ex.on_write(name, args)
        ioh.write = write

    # -----------------------------------------------------------------------------------------------------------------
    def snap(self):
        """Global snapshot, cached between commits (the global state only changes in insert_into_global_state)."""
        if self._snap is None:
            self._snap = snapshot(self.sh)
        return self._snap

    def basis_for(self, ids):
        if ids is None:
            return {}
        g = self.snap()
        res = {}
        for ident in ids:
            for k, v in g.items():
                if k[:len(ident)] == ident or ident[:len(k)] == k:
                    res[k] = v
        return res

    def _roundtrip(self):
        """Dump + restore the mediator (what DumpingOutputHandler / resume.py do) and move all harness state over."""
        import dill
        act, sch, sh, ioh = self.act, self.sch, self.sh, self.ioh
        old_handlers = list(act.get_event_handlers())
        old_taggers = list(act._taggers)
        # take the harness wrappers off (instance attributes) so that the dump contains no harness object
        act.get_event_handlers_to_run = self._real_get()
        for obj, names in ((act, ("get_trashable_events",)), (sch, ("push_event", "get_succeeding_event")),
                           (sh, ("insert_into_global_state",)), (ioh, ("write",))):
            for n in names:
                obj.__dict__.pop(n, None)
        for h in old_handlers:
            for n in ("send_event_time", "send_out_state"):
                orig = self._orig_attrs.get((id(h), n), _MISSING)
                if orig is _MISSING:
                    h.__dict__.pop(n, None)
                else:
                    h.__dict__[n] = orig
        self._orig_attrs = {}
        med = dill.loads(dill.dumps(self.med))
        self.med = med
        self.sh, self.act, self.sch, self.ioh = med._state_handler, med._activator, med._scheduler, \
            med._input_output_handler
        new_handlers = list(self.act.get_event_handlers())
        hmap = {id(o): n for o, n in zip(old_handlers, new_handlers)}
        tmap = {id(o): n for o, n in zip(old_taggers, self.act._taggers)}
        self.tagger_of = self.act._event_handler_tagger_dictionary
        self.start_handler = self.act._start_of_run_event_handler
        self.pending = {hmap[id(h)]: [tmap.get(id(v[0]), v[0])] + list(v[1:]) for h, v in self.pending.items()}
        self.c18 = {}  # cells are new objects after the round trip: proposals made before it are not judged
        self.candidate = {hmap[id(h)]: v for h, v in self.candidate.items()}
        self.handler_draws = {hmap[id(h)]: v for h, v in self.handler_draws.items() if id(h) in hmap}
        if self.current is not None and id(self.current) in hmap:
            self.current = hmap[id(self.current)]
        self._snap = None
        if hasattr(self, "_hc"):
            del self._hc
        self.resumed += 1
        self._install()

    def run(self):
        from jellyfysh.base.exceptions import EndOfRun
        try:
            while True:
                try:
                    with contextlib.redirect_stdout(io.StringIO()):
                        self.med.run()
                    break
                except ResumeNow:
                    self._roundtrip()
        except Pause:
            pass
        except EndOfRun:
            self.ended = True
        except HarnessError:
            raise
        except Exception as e:
            import re
            import traceback
            tb = traceback.extract_tb(e.__traceback__)
            where = next((fr for fr in reversed(tb) if "/jellyfysh/" in fr.filename), tb[-1])
            rel = where.filename.split("/jellyfysh/")[-1]
            files = sorted(set(fr.filename.split("/jellyfysh/")[-1] for fr in tb if "/jellyfysh/" in fr.filename))
            # A SchedulerError because a new candidate lies a few ulps before the last returned time is a float tie
            # (e.g. a hard-core contact at distance 0 evaluated as -6e-16), not an ordering defect.
            tie = False
            if type(e).__name__ == "SchedulerError":
                nums = re.findall(r"event time ([0-9.eE+-]+|inf)", str(e))
                if len(nums) == 2:
                    try:
                        a, b = float(nums[0]), float(nums[1])
                        tie = abs(a - b) <= 1e-12 * max(1.0, abs(a))
                    except ValueError:
                        pass
            self.exception = {"type": type(e).__name__, "file": rel, "files": files, "function": where.name,
                              "tie": tie}
            key = "exception-tie" if tie else "exception:" + rel
            self.V(key, "%r raised at %s:%d (%s) in leg %d after %d commits"
                   % (e, rel, where.lineno, where.name, self.legs, len(self.commits)))
        if "C17" in self.mon:
            self.check_c17_end()
        if "C04" in self.mon:
            self.check_c04_end()
        return self

    # ---- per leg ----------------------------------------------------------------------------------------------------
    def on_leg(self):
        if "C08" in self.mon:
            self.check_c08(self.snap(), "eager", None)
        if "C09" in self.mon:
            self.check_c09()
        if "C11" in self.mon:
            self.check_c11()
        if "C10" in self.mon:
            self.check_c10()
        if "C09" in self.mon:
            # "no factor involving a moving unit is ever missing or duplicated", judged against the global state
            self.check_c10(key="C09:factor-coverage")

    def on_commit_before(self, before):
        if "C13" in self.mon and self.after_prev is not None and before != self.after_prev:
            diff = sorted(k for k in before if before[k] != self.after_prev.get(k))
            self.V("C13:changed-between-commits", "global state of %r changed between commit %d and the next one "
                   "without an insert: %r -> %r" % (diff, len(self.commits), [self.after_prev.get(k) for k in diff],
                                                    [before[k] for k in diff]))
        if "C08" in self.mon:
            self.check_c08(before, "commit", self.current)

    def on_commit_after(self, before, after, out_state):
        h = self.current
        tg = self.tagger_of.get(h)
        t = self.current_time
        name = type(h).__name__
        self.commits.append((name, getattr(tg, "tag", None), t, self.digest_out_state(out_state)))
        self.stats[name] += 1
        if "C07" in self.mon:
            self.check_c07(before, after, h, t)
        if "C12" in self.mon and self.nlev == 2:
            self.check_c12(after, h, t)
        if "C11" in self.mon:
            self.check_c11_commit(after, h, t)
        if "C01" in self.mon:
            self.check_c01_commit(before, after, h, t)
        if t is not None:
            self.last_time = t
        self.after_prev = after
        if h is self.start_handler:
            self.started = True

    @staticmethod
    def digest_out_state(out_state):
        def rec(c):
            u = c.value
            return (u.identifier, tuple(u.position), None if u.velocity is None else tuple(u.velocity),
                    None if u.time_stamp is None else (u.time_stamp.quotient, u.time_stamp.remainder),
                    tuple(rec(x) for x in c.children))
        return tuple(rec(c) for c in out_state)

    def on_write(self, name, args):
        snap = None
        if args and isinstance(args[0], (list, tuple)):
            out = {}

            def rec(c):
                u = c.value
                out[u.identifier] = (tuple(u.position), None if u.velocity is None else tuple(u.velocity),
                                     None if u.time_stamp is None else (u.time_stamp.quotient, u.time_stamp.remainder))
                for ch in c.children:
                    rec(ch)
            for r in args[0]:
                rec(r)
            snap = out
        self.writes.append((name, type(self.current).__name__, self.current_time, snap))
        if "C09" in self.mon and args and args[0] is self.med:
            # a dump is being written: the state that gets pickled must be consistent in itself -- the handlers with a
            # live event in the scheduler are exactly the activator's running handlers (a resumed run starts from it)
            try:
                running = set(h for hs in self.act._running_event_handlers.values() for h in hs)
                sch = self.sch
                if hasattr(sch, "_minimal_valid_counter"):
                    live = set(h for q, r, h, c in sch.__getstate__()["heap_entries"]
                               if c >= sch._minimal_valid_counter.get(h, 0))
                else:
                    live = set(e.event_handler for e in sch._times)
            except Exception as e:
                raise HarnessError("C09 dump-consistency monitor cannot read scheduler/activator: %r" % (e,))
            self.stats["c09_dumps_checked"] += 1
            if live != running:
                self.V("C09:dump-inconsistent", "the dump written by %s pickles a scheduler with live events of %s but "
                       "an activator that additionally runs %s"
                       % (type(self.current).__name__, sorted(type(h).__name__ for h in live - running) or "-",
                          sorted(type(h).__name__ for h in running - live) or "-") + " (first list: live in the scheduler only; "
                       "second list: running in the activator only)")

    # ---- C07 --------------------------------------------------------------------------------------------------------
    def check_c07(self, before, after, h, t):
        name = type(h).__name__
        dim, L = self.dim, self.L
        if t is None:
            self.V("C07:no-time", "committed handler %s has no recorded candidate time" % name)
            return
        if self.last_time is not None and (t[0], t[1]) < (self.last_time[0], self.last_time[1]):
            self.V("C07:time-decreases", "event time %r of %s is earlier than the previous event time %r"
                   % (t, name, self.last_time))
        if set(before) != set(after):
            self.V("C07:identity", "set of identifiers changed at %s" % name)
            return
        for ident, (p1, v1, t1, c1) in before.items():
            p2, v2, t2, c2 = after[ident]
            if c1 != c2:
                self.V("C07:charge", "charge of %r changed at %s" % (ident, name))
            for d in range(dim):
                if not (0.0 <= p2[d] < L[d]):
                    self.V("C07:box", "position %r of %r outside [0, L) after %s" % (p2, ident, name))
            if v1 is None:
                if p1 != p2:
                    self.V("C07:inactive-moved", "unit %r at rest moved from %r to %r at %s" % (ident, p1, p2, name))
                if v2 is not None and t2 != t:
                    self.V("C07:stamp", "unit %r set in motion by %s at %r carries time stamp %r"
                           % (ident, name, t, t2))
            else:
                # where is the unit at the time its new record refers to (its new stamp, or the event time if at rest)
                tt = t2 if t2 is not None else t
                dt = tdiff(tt, t1)
                if dt < -1e-12:
                    self.V("C07:backwards", "unit %r: new time stamp %r before old one %r at %s" % (ident, tt, t1, name))
                if tdiff(tt, t) > 1e-12:
                    self.V("C07:stamp-future", "unit %r: time stamp %r after the event time %r at %s"
                           % (ident, tt, t, name))
                for d in range(dim):
                    if wrapdiff(p1[d] + v1[d] * dt, p2[d], L[d]) > 1e-9 * max(1.0, L[d]):
                        self.V("C07:jump", "unit %r jumps in direction %d at %s: %r (v=%r, stamp %r) -> %r (stamp %r)"
                               % (ident, d, name, p1, v1, t1, p2, tt))
                        break
                if v2 is None and abs(tdiff(t, t1)) > 0 and False:
                    pass
        if not self.started and h is not self.start_handler:
            return
        moving = [(i, v) for i, (p, v, ts, c) in after.items() if len(i) == self.nlev and v is not None]
        vs = set(v for i, v in moving)
        if len(vs) != 1:
            self.V("C07:chain", "after %s the moving leaves have velocities %r" % (name, sorted(vs)))
            return
        v = next(iter(vs))
        sp = math.sqrt(sum(x * x for x in v))
        if self.speed is None:
            self.speed = sp
        elif abs(sp - self.speed) > 1e-9 * self.speed:
            self.V("C07:speed", "speed %r after %s, initial speed %r" % (sp, name, self.speed))
        roots = set(i[0] for i, _ in moving)
        if len(moving) != 1 and not (len(roots) == 1 and len(moving) == self.npr):
            self.V("C07:chain-shape", "moving leaves after %s: %r" % (name, sorted(i for i, _ in moving)))
        # moving leaves are stamped consistently: same position follows from each leaf's own stamp (checked in jump)

    # ---- C08 --------------------------------------------------------------------------------------------------------
    def check_c08(self, g, form, only):
        for h, (tg, ids, basis, cand) in self.pending.items():
            if only is not None and h is not only:
                continue
            if tg is None or tagger_kind(tg) != "interaction":
                continue
            for ident, (pos, vel, ts, ch) in basis.items():
                p2, v2, t2, _ = g[ident]
                if v2 != vel:
                    self.V("C08:%s-velocity" % form, "%s (tagger %s, in-state %r, candidate %r): unit %r had velocity "
                           "%r when the candidate was computed, now %r; last commit %s"
                           % (type(h).__name__, tg.tag, ids, cand, ident, vel, v2,
                              self.commits[-1][0] if self.commits else None))
                    break
                if vel is None:
                    if p2 != pos:
                        self.V("C08:%s-position" % form, "%s (tagger %s): resting unit %r moved from %r to %r since "
                               "the candidate was computed" % (type(h).__name__, tg.tag, ident, pos, p2))
                        break
                else:
                    dt = tdiff(t2, ts)
                    if any(wrapdiff(pos[d] + vel[d] * dt, p2[d], self.L[d]) > 1e-9 * max(1.0, self.L[d])
                           for d in range(self.dim)):
                        self.V("C08:%s-trajectory" % form, "%s (tagger %s): unit %r left the trajectory the candidate "
                               "was computed on" % (type(h).__name__, tg.tag, ident))
                        break

    # ---- C09 --------------------------------------------------------------------------------------------------------
    def _scheduler_live(self):
        """Counter of the handlers with a live event, read from the real scheduler (None if it cannot be read)."""
        sch = self.sch
        try:
            if hasattr(sch, "_minimal_valid_counter"):
                return collections.Counter(h for q, r, h, c in sch.__getstate__()["heap_entries"]
                                           if c >= sch._minimal_valid_counter.get(h, 0))
            if hasattr(sch, "_times"):
                return collections.Counter(e.event_handler for e in sch._times)
        except Exception as e:
            raise HarnessError("cannot read the scheduler's content: %r" % (e,))
        return None

    def boundary_tie(self):
        """A cell-boundary event is pending within 4 ulp of the time of the last commit: the two events are simultaneous
        within rounding, their order is unspecified, and the occupancy (a function of the position, which is then *on*
        the boundary) may already name the next cell.  Only configurations whose lengths and intervals are commensurate
        reach this; it is counted as a float tie, not judged."""
        now = self.last_time
        if now is None:
            return False
        for h, (t, ids, b, c) in self.pending.items():
            if c is not None and tagger_kind(t) == "cell_boundary":
                if abs((c[0] - now[0]) + (c[1] - now[1])) <= 4.5e-16:
                    return True
        return False

    def check_c09(self):
        if not self.commits:
            return
        if self.act._internal_states and self.boundary_tie():
            self.stats["float_ties_boundary"] += 1
            return
        active = self.sh.extract_active_global_state()
        start_tagger = self.tagger_of[self.start_handler]
        for tg in self.act._taggers:
            try:
                fresh = collections.Counter(None if x is None else tuple(x)
                                            for x in tg.yield_identifiers_send_event_time(active))
            except Exception as e:
                self.V("C09:tagger-exception", "tagger %s raised %r on the current active state" % (tg.tag, e))
                continue
            have = collections.Counter(ids for h, (t, ids, b, c) in self.pending.items() if t is tg)
            kind = tagger_kind(tg)
            last = self.commits[-1][0]
            if kind in ("interaction", "cell_boundary"):
                if fresh != have:
                    miss = fresh - have
                    extra = have - fresh
                    self.V("C09:pending-differs", "tagger %s after %s: pending in-states %s, a fresh start creates %s "
                           "(missing %s, surplus %s)" % (tg.tag, last, sorted(have.elements(), key=repr),
                                                         sorted(fresh.elements(), key=repr),
                                                         sorted(miss.elements(), key=repr),
                                                         sorted(extra.elements(), key=repr)))
            elif tg is not start_tagger:
                if sum(fresh.values()) != sum(have.values()):
                    self.V("C09:count-differs", "tagger %s after %s: %d pending events, a fresh start creates %d"
                           % (tg.tag, last, sum(have.values()), sum(fresh.values())))
        # what the scheduler really holds (read from the scheduler itself, not from the harness' record of pushes):
        # every running handler with a finite candidate exactly once, nothing else
        live = self._scheduler_live()
        if live is not None:
            for h, n in live.items():
                if h not in self.pending or n != 1:
                    self.V("C09:scheduler-content", "the scheduler holds %d live event(s) of %s, the activator has %s"
                           % (n, type(h).__name__, "one running" if h in self.pending else "none running"))
                    break
            else:
                for h, c in self.candidate.items():
                    if c is not None and c[0] != math.inf and h not in live:
                        self.V("C09:scheduler-content", "the running handler %s (candidate %r) has no live event in the "
                               "scheduler" % (type(h).__name__, c))
                        break
        # what the scheduler holds == what the activator handed out
        if set(self.pending) != set(self.candidate):
            self.V("C09:scheduler-differs", "handlers with a live candidate time %r differ from the activator's "
                   "running handlers %r" % (sorted(type(h).__name__ for h in self.candidate),
                                            sorted(type(h).__name__ for h in self.pending)))

    # ---- C10 --------------------------------------------------------------------------------------------------------
    def check_c10(self, key="C10:partition-pending"):
        """At every leg, for every cell system with one interaction family: the targets of the *pending* events of the
        nearby-cells and surplus taggers, plus the occupants of the non-nearby cells when a cell-veto event is pending
        (or the targets of the pending cell-bounding events), are exactly the recorded non-active relevant units, each
        once."""
        if not self.commits or not self.act._internal_states:
            return
        if self.boundary_tie():
            return
        for ist in self.act._internal_states:
            if not hasattr(ist, "yield_active_cells"):
                continue
            act = list(ist.yield_active_cells())
            if len(act) != 1:
                continue
            acell, aid = act[0]
            fam = collections.defaultdict(list)
            for tg in self.act._taggers:
                if getattr(tg, "_internal_state", None) is ist:
                    # (the factory derives a class named after the configuration section: look through the MRO)
                    for base in ("ExcludedCellsTagger", "SurplusCellsTagger", "CellVetoTagger",
                                 "CellBoundingPotentialTagger"):
                        if any(c.__name__ == base for c in type(tg).__mro__):
                            fam[base].append(tg)
            far_taggers = fam.get("CellVetoTagger", []) + fam.get("CellBoundingPotentialTagger", [])
            if len(fam.get("ExcludedCellsTagger", [])) != 1 or len(far_taggers) != 1 or \
                    len(fam.get("SurplusCellsTagger", [])) > 1:
                self.stats["c10_skipped_cell_systems"] += 1
                continue
            cells = ist.cells
            # the other relevant units, taken from the global state (not from the occupancy's own records: a unit the
            # occupancy has lost must show up as missed)
            expected = collections.Counter()
            lvl = ist.cell_level
            for ident, (pos, vel, ts, charge) in self.snap().items():
                if len(ident) != lvl or ident == aid:
                    continue
                unit = type("U", (), {"charge": None if charge is None else dict(charge)})
                if ist._is_relevant_unit(unit):
                    expected[ident] += 1
            covered = collections.Counter()
            for tg in fam["ExcludedCellsTagger"] + fam.get("SurplusCellsTagger", []):
                for h, (t, ids, b, c) in self.pending.items():
                    if t is tg and ids:
                        for target in ids[1:]:
                            covered[tuple(target)] += 1
            far = far_taggers[0]
            far_pending = [ids for h, (t, ids, b, c) in self.pending.items() if t is far]
            if far in fam.get("CellVetoTagger", []):
                for _ in far_pending:
                    nearby = cells.nearby_cells(acell)
                    for cell in cells.yield_cells():
                        if cell not in nearby:
                            for ident in ist[cell]:
                                covered[ident] += 1
            else:
                for ids in far_pending:
                    for target in ids[1:]:
                        covered[tuple(target)] += 1
            self.stats["c10_partitions"] += 1
            if covered != expected:
                self.V(key, "cell system of %s after %s (active %r in cell %r): the pending "
                       "nearby/surplus/far events cover %s; the other relevant units are %s (missed %s, treated twice %s)"
                       % (far.tag, self.commits[-1][0], aid, acell.identifier, sorted(covered.elements()),
                          sorted(expected.elements()), sorted((expected - covered).elements()),
                          sorted((covered - expected).elements())))

    # ---- C11 --------------------------------------------------------------------------------------------------------
    def _cell_contains(self, cell, pos, slack):
        for d in range(self.dim):
            lo, hi = cell.cell_min[d], cell.cell_max[d]
            tol = slack * max(1.0, self.L[d])
            if not (lo - tol <= pos[d] <= hi + tol):
                # periodic closure: position L-eps belongs to the top cell, 0 to the bottom one
                if not (lo - tol <= pos[d] - self.L[d] <= hi + tol or lo - tol <= pos[d] + self.L[d] <= hi + tol):
                    return False
        return True

    def check_c11(self):
        if not self.act._internal_states:
            return
        g = self.snap()
        now = self.last_time
        for ist in self.act._internal_states:
            if not hasattr(ist, "yield_active_cells"):
                continue
            cells, lvl = ist.cells, ist.cell_level
            rec = collections.Counter()
            where = {}
            for cell in cells.yield_cells():
                occ = ist[cell]
                for ident in occ:
                    rec[ident] += 1
                    where[ident] = cell
                cap = getattr(ist, "_maximum_number_occupants", None)
                bounded = not getattr(ist, "_number_occupants_not_bounded", False)
                if bounded and cap is not None and len(occ) > cap:
                    self.V("C11:cap", "cell %r lists %d occupants, limit %d" % (cell.identifier, len(occ), cap))
            for cell, lst in ist._surplus.items():
                for ident in lst:
                    rec[ident] += 1
                    where[ident] = cell
            act_cells = list(ist.yield_active_cells())
            active_ids = [a for c, a in act_cells]
            for ident, (pos, vel, ts, charge) in g.items():
                if len(ident) != lvl:
                    continue
                unit = type("U", (), {"charge": None if charge is None else dict(charge)})
                if not ist._is_relevant_unit(unit):
                    if rec[ident] or ident in active_ids:
                        self.V("C11:irrelevant-recorded", "unit %r is not relevant for the cell system but recorded"
                               % (ident,))
                    continue
                moving_here = vel is not None
                if ident in active_ids:
                    if rec[ident]:
                        self.V("C11:active-listed", "active unit %r is also listed as occupant/surplus" % (ident,))
                    cell = [c for c, a in act_cells if a == ident][0]
                    if not moving_here:
                        self.V("C11:active-at-rest", "unit %r recorded as active but has no velocity" % (ident,))
                else:
                    if moving_here:
                        self.V("C11:moving-not-active", "unit %r is moving but not recorded as the active unit of any "
                               "cell (active: %r)" % (ident, active_ids))
                    if rec[ident] != 1:
                        self.V("C11:count", "unit %r is recorded %d times in occupant/surplus lists (after %s)"
                               % (ident, rec[ident], self.commits[-1][0] if self.commits else None))
                        continue
                    cell = where[ident]
                # position at the current time
                p = pos
                if vel is not None and now is not None and ts is not None:
                    dt = tdiff(now, ts)
                    p = tuple((pos[d] + vel[d] * dt) % self.L[d] for d in range(self.dim))
                if not self._cell_contains(cell, p, 1e-12):
                    self.V("C11:wrong-cell", "unit %r at %r is recorded in cell %r [%r, %r] (active=%r, after %s)"
                           % (ident, p, cell.identifier, cell.cell_min, cell.cell_max, ident in active_ids,
                              self.commits[-1][0] if self.commits else None))

    def check_c11_commit(self, after, h, t):
        """The active unit's continuous position at every commit lies in its recorded cell, unless the committing
        handler is a cell-boundary handler (then the occupancy is updated at the next leg)."""
        if not self.act._internal_states or t is None:
            return
        tg = self.tagger_of.get(h)
        for ist in self.act._internal_states:
            if not hasattr(ist, "yield_active_cells"):
                continue
            boundary_of_this = tg is not None and tagger_kind(tg) == "cell_boundary" and \
                getattr(tg, "internal_state", None) is ist
            for cell, ident in ist.yield_active_cells():
                pos, vel, ts, _ = after[ident]
                if vel is None or ts is None:
                    continue  # chain left this unit; occupancy is updated at the next leg
                dt = tdiff(t, ts)
                p = tuple((pos[d] + vel[d] * dt) % self.L[d] for d in range(self.dim))
                inside = self._cell_contains(cell, p, 1e-9)
                if boundary_of_this:
                    continue
                if not inside:
                    self.V("C11:left-cell", "active unit %r at %r is outside its recorded cell %r at the commit of %s "
                           "without a cell-boundary event" % (ident, p, cell.identifier, type(h).__name__))

    # ---- C18 --------------------------------------------------------------------------------------------------------
    def _c18_active_cell(self, h):
        for ist in self.act._internal_states:
            if getattr(ist, "cells", None) is h._cells and hasattr(ist, "yield_active_cells"):
                act = list(ist.yield_active_cells())
                if len(act) == 1:
                    return act[0][0]
        return None

    def check_c18_call(self, h, phase, real, a, k):
        """Cell-veto proposals inside a run: the target cell handed to the mediator is the active cell translated by an
        offset the handler has a bound for (not an excluded one), and when the proposal is *committed* the active
        unit is still in the cell the offset was applied to -- otherwise the event is confirmed against the bound of a
        different offset than the one that now separates the two cells."""
        if phase == "time":
            ret = real(*a, **k)
            try:
                target = ret[1][0]
                active = self._c18_active_cell(h)
                if active is not None:
                    rel = h._cells.relative_cell(target, active)
                    if rel not in h._derivative_bounds:
                        self.V("C18:offset-without-bound", "%s proposes target cell %r from active cell %r: the offset "
                               "%r has no stored bound (excluded cell?)" % (type(h).__name__, target.identifier,
                                                                             active.identifier, rel.identifier))
                    self.c18[h] = (active, target, rel)
                    self.stats["c18_proposals"] += 1
            except HarnessError:
                raise
            except Exception as e:
                raise HarnessError("C18 monitor cannot read the cell-veto proposal: %r" % (e,))
            return ret
        rec = self.c18.pop(h, None)
        if rec is not None:
            active_now = self._c18_active_cell(h)
            if active_now is not None and active_now is not rec[0]:
                now_rel = h._cells.relative_cell(rec[1], active_now)
                self.V("C18:stale-target", "%s commits a proposal made in active cell %r (target %r, sampled offset %r) "
                       "while the active unit is now in cell %r: the target is at offset %r of it"
                       % (type(h).__name__, rec[0].identifier, rec[1].identifier, rec[2].identifier,
                          active_now.identifier, now_rel.identifier))
            self.stats["c18_commits"] += 1
        return real(*a, **k)

    # ---- C12 --------------------------------------------------------------------------------------------------------
    def check_c12(self, after, h, t):
        name = type(h).__name__
        npr, dim, L = self.npr, self.dim, self.L
        if t is None:
            return
        for r in range(self.nroots):
            pr, vr, tr, _ = after[(r,)]
            lv = [after[(r, k)] for k in range(npr)]
            w = 1.0 / npr
            vsum = [sum((l[1][d] if l[1] is not None else 0.0) * w for l in lv) for d in range(dim)]
            if vr is None:
                if any(l[1] is not None for l in lv):
                    self.V("C12:velocity-absent", "composite object %d has moving point masses but no velocity after "
                           "%s" % (r, name))
                prt = pr
            else:
                if all(l[1] is None for l in lv):
                    self.V("C12:velocity-present", "composite object %d has velocity %r but no moving point mass "
                           "after %s" % (r, vr, name))
                if any(abs(vr[d] - vsum[d]) > 1e-10 for d in range(dim)):
                    self.V("C12:velocity", "composite object %d: stored velocity %r, weighted sum of its point masses "
                           "%r after %s" % (r, vr, vsum, name))
                dt = tdiff(t, tr)
                prt = [pr[d] + vr[d] * dt for d in range(dim)]
            bary = [0.0] * dim
            for (pl, vl, tl, _) in lv:
                if vl is not None:
                    dt = tdiff(t, tl)
                    pl = [pl[d] + vl[d] * dt for d in range(dim)]
                for d in range(dim):
                    s = ((pl[d] - prt[d]) + L[d] / 2) % L[d] - L[d] / 2
                    bary[d] += w * s
            if any(abs(b) > 1e-9 * max(1.0, L[d]) for d, b in enumerate(bary)):
                self.V("C12:barycentre", "composite object %d: stored position advanced to the event time is off the "
                       "barycentre of its point masses by %r after %s" % (r, bary, name))

    # ---- C01 (run level) --------------------------------------------------------------------------------------------
    def check_c01_candidate(self, h):
        """Every candidate of an interaction handler that needs an energy budget drew at least one fresh one."""
        tg = self.tagger_of.get(h)
        if tg is None or tagger_kind(tg) != "interaction":
            return
        needs = False
        for attr in ("_bounding_potential", "_potential"):
            p = getattr(h, attr, None)
            if p is not None and getattr(p, "potential_change_required", False):
                needs = True
        if hasattr(h, "_estimator") or hasattr(h, "_max_displacement"):
            needs = True
        if not needs:
            return
        draws = [d for d in self.handler_draws.get(h, []) if d[0] == "time" and d[1] == "expovariate"]
        self.stats["c01_candidates"] += 1
        if not draws:
            self.V("C01:no-fresh-budget", "%s (tagger %s) produced a candidate time without drawing an energy budget"
                   % (type(h).__name__, tg.tag))

    def _hard_core_parameters(self):
        if hasattr(self, "_hc"):
            return self._hc
        diam2 = None
        bond = None
        for h in self.act.get_event_handlers():
            p = getattr(h, "_potential", None)
            if p is None:
                continue
            if type(p).__name__ == "HardSpherePotential":
                diam2 = p._diameter_squared
            if type(p).__name__ == "HardDipolePotential":
                bond = (p._minimum_separation_squared, p._maximum_separation_squared)
        self._hc = (diam2, bond)
        return self._hc

    def check_c01_commit(self, before, after, h, t):
        name = type(h).__name__
        dim, L = self.dim, self.L
        # end of chain: the unit named by the draw(s) moves afterwards, direction cycles / rotates, speed kept
        if "EndOfChain" in name:
            ints = [d[2] for d in self.handler_draws.get(h, []) if d[0] == "time" and d[1] == "randint"]
            moving = sorted(i for i, (p, v, ts, c) in after.items() if len(i) == self.nlev and v is not None)
            old = [v for i, (p, v, ts, c) in before.items() if len(i) == self.nlev and v is not None]
            new = [v for i, (p, v, ts, c) in after.items() if len(i) == self.nlev and v is not None]
            self.stats["c01_end_of_chain"] += 1
            if ints and moving:
                if len(ints) == 1:
                    want = [(ints[0],)] if self.nlev == 1 else [(ints[0], k) for k in range(self.npr)]
                else:
                    want = [tuple(ints[:2])]
                if moving != sorted(want):
                    self.V("C01:end-of-chain-unit", "end of chain drew unit %r but afterwards %r move(s)"
                           % (ints, moving))
            if old and new:
                so = math.sqrt(sum(x * x for x in old[0]))
                sn = math.sqrt(sum(x * x for x in new[0]))
                if abs(so - sn) > 1e-9 * so:
                    self.V("C01:end-of-chain-speed", "end of chain changed the speed from %r to %r" % (so, sn))
                if "PeriodicDirection" in name:
                    do = [i for i, x in enumerate(old[0]) if x != 0.0]
                    dn = [i for i, x in enumerate(new[0]) if x != 0.0]
                    if len(do) == 1 and (len(dn) != 1 or dn[0] != (do[0] + 1) % dim):
                        self.V("C01:end-of-chain-direction", "end of chain: direction of motion %r -> %r, expected the "
                               "next axis" % (do, dn))
        # hard cores
        diam2, bond = self._hard_core_parameters()
        if (diam2 is None and bond is None) or t is None:
            return
        pos = {}
        for i, (p, v, ts, c) in after.items():
            if len(i) != self.nlev:
                continue
            if v is not None and ts is not None:
                dt = tdiff(t, ts)
                p = tuple(p[d] + v[d] * dt for d in range(dim))
            pos[i] = p
        ids = sorted(pos)
        self.stats["c01_hard_core_states"] += 1
        for a in range(len(ids)):
            for b in range(a + 1, len(ids)):
                i, j = ids[a], ids[b]
                d2 = 0.0
                for d in range(dim):
                    s = ((pos[j][d] - pos[i][d]) + L[d] / 2) % L[d] - L[d] / 2
                    d2 += s * s
                if i[0] != j[0] or self.nlev == 1:
                    if diam2 is not None and d2 < diam2 * (1 - 1e-9):
                        self.V("C01:hard-core-overlap", "after %s units %r and %r are at distance %r < diameter %r"
                               % (name, i, j, math.sqrt(d2), math.sqrt(diam2)))
                        return
                elif bond is not None and not (bond[0] * (1 - 1e-9) <= d2 <= bond[1] * (1 + 1e-9)):
                    self.V("C01:bond-window", "after %s the bond %r-%r has length %r outside [%r, %r]"
                           % (name, i, j, math.sqrt(d2), math.sqrt(bond[0]), math.sqrt(bond[1])))
                    return

    # ---- C04 --------------------------------------------------------------------------------------------------------
    def check_c04_end(self):
        """Every thinned event whose bound is the nearest-image 1/r bound: true rate <= bounding rate."""
        n = 0
        for name, bp, bound, real in BOUND_RECORDS:
            if bp != "InversePowerCoulombBoundingPotential":
                continue
            n += 1
            if real > 0 and real > bound * (1 + 1e-9) + 1e-300:
                self.V("C04:bound-exceeded", "%s: true event rate %r exceeds the 1/r bounding rate %r at a thinned "
                       "event of the run" % (name, real, bound))
                break
        self.stats["c04_thinned_events"] += n
        del BOUND_RECORDS[:]

    # ---- C17 --------------------------------------------------------------------------------------------------------
    def check_c17_end(self):
        """Evaluated after the run: sampling times, written states, number of samples, end of run.
        self.info["c17"] = {"interval": float, "zero": bool, "end": float}"""
        from fractions import Fraction as Fr
        from jellyfysh.event_handler.abstracts import SamplingEventHandler, EndOfRunEventHandler
        p = self.info.get("c17")
        if not p:
            raise HarnessError("C17 monitor needs the sampling parameters of the configuration")
        delta, zero, end = p["interval"], p["zero"], p["end"]
        eor = divmod(end, 1.0)
        past_end = False
        for name, tag, t, _ in self.commits:
            if t is not None and (t[0], t[1]) > eor:
                # also for runs that were cut at the horizon or never ended: nothing may be committed after the end time
                self.V("C17:after-end", "%s committed at %r after the end of the run %r%s"
                       % (name, t, eor, "" if self.ended else " (the run did not end at its end time)"))
                past_end = True
                break
        if not self.ended:
            if self.exception is None and not past_end:
                self.stats["c17_not_ended"] += 1
            if self.exception is not None:
                return
        else:
            last = self.commits[-1]
            if not last[0].startswith("FinalTimeEndOfRunEventHandler") and "EndOfRun" not in last[0]:
                self.V("C17:last-commit", "the run ended but the last committed event is %s at %r" % (last[0], last[2]))
            elif last[2] != eor:
                self.V("C17:end-time", "end-of-run committed at %r, configured end time %r = %r" % (last[2], end, eor))
        samples = [w for w in self.writes if w[1].startswith(("FixedIntervalSamplingEventHandler",))
                   or "SamplingEventHandler" in w[1]]
        fd = Fr(delta)
        ulp = Fr(math.ulp(1.0 + delta))
        for k, (oh, hname, t, snap) in enumerate(samples, start=1):
            nominal = fd * (k - 1 if zero else k)
            got = Fr(t[0]) + Fr(t[1])
            if abs(got - nominal) > k * ulp:
                self.V("C17:sample-time", "sample %d of %s taken at %r, nominal time %s (interval %r, first at zero: %r)"
                       % (k, hname, t, float(nominal), delta, zero))
            if snap is not None:
                for ident, (pos, vel, ts) in snap.items():
                    if vel is not None and ts != t:
                        self.V("C17:not-time-sliced", "sample %d at %r: moving unit %r is written with time stamp %r "
                               "(position %r is not the position at the sample time)" % (k, t, ident, ts, pos))
                        break
        if not self.ended:
            self.stats["c17_samples"] += len(samples)
            return
        # number of samples: nominal times strictly before the end (ties within rounding may go either way)
        fend = Fr(end)
        lo = hi = 0
        k = 0
        while True:
            k += 1
            nominal = fd * (k - 1 if zero else k)
            if nominal > fend + k * ulp:
                break
            hi += 1
            if nominal < fend - k * ulp:
                lo += 1
            if k > 100000:
                break
        if not lo <= len(samples) <= hi:
            self.V("C17:sample-count", "%d samples written, %d..%d sampling times lie before the end %r (interval %r, "
                   "first at zero: %r)" % (len(samples), lo, hi, end, delta, zero))
        self.stats["c17_samples"] += len(samples)

    # -----------------------------------------------------------------------------------------------------------------
    def outcome(self):
        return hashlib.blake2b(repr(self.commits).encode(), digest_size=12).hexdigest()
