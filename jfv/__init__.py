"""jfv -- bounded exhaustive exploration machinery for the JeLLyFysh properties (see /verif/DESIGN.md)."""
