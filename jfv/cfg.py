"""Configuration loading and building through the real factory.

* shipped .ini files are read from /repo/jellyfysh/config_files at run time (edits are seen);
* overrides: {(section, option): value}; output files are redirected into a scratch directory that is removed at
  exit; the FactorTypeMaps file name is made absolute;
* an explicit start configuration can be injected through `verif_input_handler`, a harness class registered in
  sys.modules under jellyfysh.input_output_handler.input_handler so that the *real factory* instantiates it.
"""
import atexit
import contextlib
import io
import os
import shutil
import sys
import tempfile
import types
from configparser import ConfigParser

from . import bootstrap

_scratch = None


def scratch_dir():
    global _scratch
    if _scratch is None or not os.path.isdir(_scratch):
        # below the per-run build directory when there is one: pool workers are terminated without running their
        # exit handlers, the owner of the build directory removes everything at its exit
        parent = bootstrap.build_dir if bootstrap.build_dir and os.path.isdir(bootstrap.build_dir) else None
        _scratch = tempfile.mkdtemp(prefix="jfv_out_", dir=parent)
        owner = os.getpid()

        def _cleanup(path=_scratch):
            if os.getpid() == owner:
                shutil.rmtree(path, ignore_errors=True)
        atexit.register(_cleanup)
    return _scratch


def set_scratch(path):
    """Use a caller-owned directory for output files (engine E: dumps refer to these files by name)."""
    global _scratch
    os.makedirs(path, exist_ok=True)
    _scratch = path


def config_dir():
    return os.path.join(bootstrap.REPO, "jellyfysh", "config_files")


SHIPPED = [
    "2018_JCP_149_064113/coulomb_atoms/power_bounded.ini",
    "2018_JCP_149_064113/coulomb_atoms/cell_bounded.ini",
    "2018_JCP_149_064113/coulomb_atoms/cell_veto.ini",
    "2018_JCP_149_064113/coulomb_atoms/power_bounded_dump.ini",
    "2018_JCP_149_064113/dipoles/atom_factors.ini",
    "2018_JCP_149_064113/dipoles/dipole_factors_inside_first.ini",
    "2018_JCP_149_064113/dipoles/dipole_factors_outside_first.ini",
    "2018_JCP_149_064113/dipoles/dipole_factors_ratio.ini",
    "2018_JCP_149_064113/dipoles/cell_bounded.ini",
    "2018_JCP_149_064113/dipoles/cell_veto.ini",
    "2018_JCP_149_064113/dipoles/dipole_motion.ini",
    "2018_JCP_149_064113/water/single_molecule.ini",
    "2018_JCP_149_064113/water/coulomb_power_bounded_lj_inverted.ini",
    "2018_JCP_149_064113/water/coulomb_power_bounded_lj_cell_bounded.ini",
    "2018_JCP_149_064113/water/coulomb_cell_veto_lj_inverted.ini",
    "2018_JCP_149_064113/water/coulomb_cell_veto_lj_cell_veto.ini",
    "hard_disk_dipoles/single_hard_disk_dipole.ini",
]
# hard_disk_dipoles/hard_disk_dipoles(_cells).ini need MDAnalysis (pdb input) unless the input handler is replaced.
PDB_INPUT = ["hard_disk_dipoles/hard_disk_dipoles.ini", "hard_disk_dipoles/hard_disk_dipoles_cells.ini"]


def _register_harness_modules():
    name = "jellyfysh.input_output_handler.input_handler.verif_input_handler"
    if name in sys.modules:
        return
    from jellyfysh.base.node import Node
    from jellyfysh.base.particle import Particle
    import jellyfysh.setting as setting
    from jellyfysh.input_output_handler.input_handler.input_handler import InputHandler

    class VerifInputHandler(InputHandler):
        """Returns the explicit configuration stored in VerifInputHandler.CONFIG:
        a list of roots, each (position, charge dict or None) or (position, [(position, charge dict), ...])."""
        CONFIG = None

        def __init__(self, number_of_root_nodes: int, number_of_nodes_per_root_node: int,
                     number_of_node_levels: int) -> None:
            super().__init__()
            setting.set_number_of_root_nodes(number_of_root_nodes)
            setting.set_number_of_nodes_per_root_node(number_of_nodes_per_root_node)
            setting.set_number_of_node_levels(number_of_node_levels)

        def read(self):
            nodes = []
            for root in VerifInputHandler.CONFIG:
                if isinstance(root[1], list):
                    n = Node(Particle(list(root[0])), weight=1)
                    for (p, c) in root[1]:
                        n.add_child(Node(Particle(list(p), dict(c) if c is not None else None),
                                         weight=1.0 / len(root[1])))
                else:
                    n = Node(Particle(list(root[0]), dict(root[1]) if root[1] is not None else None), weight=1)
                nodes.append(n)
            return nodes

    mod = types.ModuleType(name)
    mod.VerifInputHandler = VerifInputHandler
    VerifInputHandler.__module__ = name
    sys.modules[name] = mod
    import jellyfysh.input_output_handler.input_handler as pkg
    pkg.verif_input_handler = mod


def load(ini, overrides=None, start=None):
    """ini: path relative to config_files (or absolute).  start: explicit configuration for VerifInputHandler or None.
    Returns a ConfigParser ready for build()."""
    path = ini if os.path.isabs(ini) else os.path.join(config_dir(), ini)
    config = ConfigParser()
    if not config.read(path):
        raise FileNotFoundError(path)
    out = scratch_dir()
    for sec in config.sections():
        if sec.endswith("OutputHandler") and config.has_option(sec, "filename"):
            config.set(sec, "filename", os.path.join(out, "%s_%d.dat" % (sec, os.getpid())))
    if config.has_section("FactorTypeMaps"):
        fn = config.get("FactorTypeMaps", "filename")
        if not os.path.isabs(fn):
            config.set("FactorTypeMaps", "filename", os.path.join(bootstrap.REPO, "jellyfysh", fn))
    if start is not None:
        _register_harness_modules()
        per_root = len(start[0][1]) if isinstance(start[0][1], list) else 1
        config.set("InputOutputHandler", "input_handler", "verif_input_handler")
        if not config.has_section("VerifInputHandler"):
            config.add_section("VerifInputHandler")
        config.set("VerifInputHandler", "number_of_root_nodes", str(len(start)))
        config.set("VerifInputHandler", "number_of_nodes_per_root_node", str(per_root))
        config.set("VerifInputHandler", "number_of_node_levels", "2" if isinstance(start[0][1], list) else "1")
    for (sec, opt), val in (overrides or {}).items():
        if not config.has_section(sec):
            config.add_section(sec)
        config.set(sec, opt, str(val))
    return config


def build(config, start=None, seed=12345):
    """Build setting and mediator with the real factory (construction draws come from the real generator, seeded)."""
    import random
    import jellyfysh.setting as setting
    from jellyfysh.base import factory
    from jellyfysh.base.strings import to_camel_case
    setting.reset()
    try:
        from jellyfysh.activator.tagger.factor_type_maps import FactorTypeMaps
        FactorTypeMaps._instance = None
    except Exception:
        pass
    if hasattr(factory, "used_sections"):
        factory.used_sections.clear()
    if start is not None:
        _register_harness_modules()
        sys.modules["jellyfysh.input_output_handler.input_handler.verif_input_handler"].VerifInputHandler.CONFIG = start
    random.seed(seed)
    with contextlib.redirect_stdout(io.StringIO()):
        factory.build_from_config(config, to_camel_case(config.get("Run", "setting")), "jellyfysh.setting")
        mediator = factory.build_from_config(config, to_camel_case(config.get("Run", "mediator")),
                                             "jellyfysh.mediator")
    return mediator
