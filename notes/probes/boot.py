import sys, os, importlib.util, glob
sys.dont_write_bytecode = True
sys.path.insert(0, '/repo')
B = '/tmp/exp/build'
for name, rel in [("jellyfysh.scheduler.heap_scheduler._heap", "jellyfysh/scheduler/heap_scheduler/_heap*.so"),
                  ("jellyfysh.potential.merged_image_coulomb_potential._merged_image_coulomb_potential", "jellyfysh/potential/merged_image_coulomb_potential/_merged*.so"),
                  ("jellyfysh.potential.inverse_power_coulomb_bounding_potential._inverse_power_coulomb_bounding_potential", "jellyfysh/potential/inverse_power_coulomb_bounding_potential/_inverse*.so")]:
    path = glob.glob(os.path.join(B, rel))[0]
    spec = importlib.util.spec_from_file_location(name, path)
    mod = importlib.util.module_from_spec(spec)
    spec.loader.exec_module(mod)
    sys.modules[name] = mod
import jellyfysh
print(jellyfysh.__file__)
from jellyfysh.scheduler.heap_scheduler import heap_scheduler
print(heap_scheduler.lib, sys.modules["jellyfysh.scheduler.heap_scheduler._heap"].__file__)
import jellyfysh.scheduler.heap_scheduler._heap as h
print(h.__file__)
from jellyfysh.base.time import Time
s = heap_scheduler.HeapScheduler()
s.push_event(Time(1.0,0.5), "a"); s.push_event(Time(0.0,0.5), "b")
print(s.get_succeeding_event())
