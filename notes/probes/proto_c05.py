import sys, math, random, itertools, time
from fractions import Fraction
sys.dont_write_bytecode = True
sys.path.insert(0, '/repo')
from jellyfysh.lifting.inside_first_lifting import InsideFirstLifting
from jellyfysh.lifting.outside_first_lifting import OutsideFirstLifting
from jellyfysh.lifting.ratio_lifting import RatioLifting
import jellyfysh.lifting.lifting as lmod, jellyfysh.lifting.ratio_lifting as rmod

class Seam:
    def __init__(self): self.answers = []; self.i = 0
    def uniform(self, a, b):
        u = self.answers[self.i]; self.i += 1
        return a + (b-a)*u
S = Seam()
random.uniform = S.uniform   # both modules use random.uniform via module attribute

vals = [-3,-2,-1,0,1,2,3]
t=time.time(); ntab=0; nexec=0; bad=[]
m = 4   # grid points per unit interval
for n in (2,3,4):
    for tab in itertools.product(vals, repeat=n):
        if sum(tab) != 0 or max(tab) <= 0: continue
        ntab += 1
        for cls in (InsideFirstLifting, OutsideFirstLifting, RatioLifting):
            l = cls()
            counts = {}   # k -> integer count, summed over actives, weights handled via grid size q_a*m
            Sneg = -sum(v for v in tab if v < 0)
            for a, qa in enumerate(tab):
                if qa <= 0: continue
                if cls is RatioLifting:
                    # draws: insert's uniform(0, qa) (irrelevant) and get's uniform(0, Sneg): grid Sneg*m points; weight qa
                    for j in range(Sneg*m):
                        l.reset(); S.answers = [0.5, (j+0.5)/(Sneg*m)]; S.i = 0
                        for idx, v in enumerate(tab): l.insert(float(v), idx, idx == a)
                        k = l.get_active_identifier(); nexec += 1
                        counts[k] = counts.get(k, 0) + Fraction(qa, Sneg)   # each grid point carries probability 1/(Sneg m), times flow qa -> scaled by m
                else:
                    for j in range(qa*m):
                        l.reset(); S.answers = [(j+0.5)/(qa*m)]; S.i = 0
                        for idx, v in enumerate(tab): l.insert(float(v), idx, idx == a)
                        k = l.get_active_identifier(); nexec += 1
                        counts[k] = counts.get(k, 0) + 1
            for k, v in enumerate(tab):
                expect = m*(-v) if v < 0 else 0
                if counts.get(k, 0) != expect: bad.append((cls.__name__, tab, k, counts.get(k,0), expect))
print("tables", ntab, "executions", nexec, "time %.1f" % (time.time()-t), "bad", len(bad), bad[:5])
