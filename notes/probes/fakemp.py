"""Prototype: cooperative fake multiprocessing under a controlled scheduler (threads + baton)."""
import threading, copy, pickle, random, collections, sys

class Deadlock(Exception): pass
class Killed(BaseException): pass

class Sched:
    def __init__(self, chooser):
        self.chooser = chooser          # function(list_of_enabled_tids, current_tid, point_desc) -> tid
        self.threads = {}               # tid -> T
        self.current = None
        self.trace = []
        self.lock = threading.Lock()
        self.rng = {}                   # tid -> random state
        self.n_points = 0
        self.finished = False
    def register_main(self):
        t = T(self, 0, None); t.started = True
        self.threads[0] = t; self.current = 0
        self.rng[0] = random.getstate()
        return t
    def spawn(self, fn):
        tid = len(self.threads)
        t = T(self, tid, fn); self.threads[tid] = t
        self.rng[tid] = random.getstate()   # fork semantics: copy of parent's state at fork
        return t
    def enabled(self):
        return [tid for tid, t in self.threads.items() if t.started and not t.done and (t.blocked_on is None or t.blocked_on())]
    def point(self, desc=""):
        """called by running thread before a visible op"""
        me = self.current
        self.n_points += 1
        en = self.enabled()
        if not en:
            raise Deadlock("no enabled thread at %s; states=%s" % (desc, {tid: (t.wait_desc) for tid,t in self.threads.items() if not t.done}))
        nxt = self.chooser(en, me, desc)
        self.trace.append((me, desc, tuple(en), nxt))
        if nxt != me:
            self.switch(me, nxt)
    def switch(self, me, nxt):
        self.rng[me] = random.getstate()
        random.setstate(self.rng[nxt])
        self.current = nxt
        tn = self.threads[nxt]; tm = self.threads[me]
        tn.baton.release()
        tm.baton.acquire()
        if tm.kill: raise Killed()
    def block(self, cond, desc):
        me = self.current; t = self.threads[me]
        t.blocked_on = cond; t.wait_desc = desc
        while not cond():
            en = [x for x in self.enabled() if x != me]
            if not en:
                raise Deadlock("deadlock: %s blocked on %s; all=%s" % (me, desc, {tid: tt.wait_desc for tid,tt in self.threads.items() if not tt.done and tt.started}))
            nxt = self.chooser(en, None, "blocked:"+desc)
            self.trace.append((me, "blocked:"+desc, tuple(en), nxt))
            self.switch(me, nxt)
        t.blocked_on = None; t.wait_desc = None
    def exit_thread(self):
        me = self.current; t = self.threads[me]; t.done = True
        en = self.enabled()
        if not en:
            # hand back to main if main is blocked forever -> deadlock reported by main
            main = self.threads[0]
            self.current = 0; random.setstate(self.rng[0]); main.baton.release(); return
        nxt = self.chooser(en, None, "exit")
        self.rng[me] = random.getstate(); random.setstate(self.rng[nxt]); self.current = nxt
        self.threads[nxt].baton.release()
    def kill_all(self):
        for tid, t in self.threads.items():
            if tid != 0 and t.started and not t.done:
                t.kill = True; t.baton.release(); t.thread.join()

class T:
    def __init__(self, sched, tid, fn):
        self.sched, self.tid, self.fn = sched, tid, fn
        self.baton = threading.Semaphore(0)
        self.started = False; self.done = False; self.blocked_on = None; self.wait_desc = None; self.kill = False
        self.thread = None
    def start(self):
        def body():
            self.baton.acquire()
            if self.kill: self.done = True; return
            try:
                self.fn()
            except Killed:
                self.done = True; return
            except BaseException as e:
                self.error = e; import traceback; traceback.print_exc()
            self.sched.exit_thread()
        self.thread = threading.Thread(target=body, daemon=True); self.thread.start()
        self.started = True

SCHED = None

class FakePipeEnd:
    def __init__(self, name): self.name = name; self.inbox = collections.deque(); self.peer = None; self.closed = False
    def send(self, obj):
        SCHED.point("send:"+self.name)
        self.peer.inbox.append(pickle.dumps(obj))
    def recv(self):
        SCHED.point("recv:"+self.name)
        if not self.inbox: SCHED.block(lambda: bool(self.inbox), "recv:"+self.name)
        return pickle.loads(self.inbox.popleft())
    def poll(self): return bool(self.inbox)
    def close(self): self.closed = True
    def __hash__(self): return id(self)

_pc = [0]
def Pipe():
    _pc[0]+=1
    a, b = FakePipeEnd("M%d"%_pc[0]), FakePipeEnd("W%d"%_pc[0]); a.peer, b.peer = b, a
    return a, b

def wait(pipes):
    SCHED.point("connwait")
    if not any(p.inbox for p in pipes): SCHED.block(lambda: any(p.inbox for p in pipes), "connwait")
    return [p for p in pipes if p.inbox]

class Event:
    _n = 0
    def __init__(self): Event._n += 1; self.name = "E%d" % Event._n; self.flag = False
    def set(self): SCHED.point("set:"+self.name); self.flag = True
    def clear(self): SCHED.point("clear:"+self.name); self.flag = False
    def is_set(self): SCHED.point("is_set:"+self.name); return self.flag
    def wait(self, timeout=None):
        SCHED.point("wait:"+self.name)
        if not self.flag: SCHED.block(lambda: self.flag, "wait:"+self.name)
        return True

class BoundedSemaphore:
    def __init__(self, value=1): self.v = value; self.init = value
    def acquire(self):
        SCHED.point("sem.acquire")
        if self.v <= 0: SCHED.block(lambda: self.v > 0, "sem")
        self.v -= 1; return True
    def release(self):
        SCHED.point("sem.release")
        if self.v >= self.init: raise ValueError("semaphore released too many times")
        self.v += 1

class Process:
    def __init__(self, target=None, args=()):
        self.target, self.args = target, args; self.t = None; self.terminated = False
    def start(self):
        fn = self.target.__func__; obj = copy.deepcopy(self.target.__self__)   # fork: private copy of the handler
        args = self.args
        self.t = SCHED.spawn(lambda: fn(obj, *args)); self.t.start()
    def is_alive(self): return self.t is not None and not self.t.done and not self.terminated
    def terminate(self): self.terminated = True
    def join(self): pass

class FakeMP:
    Pipe = staticmethod(Pipe); Event = Event; BoundedSemaphore = BoundedSemaphore; Process = Process
class FakeConn:
    wait = staticmethod(wait)
