import sys, os, time, random, io, contextlib, shutil, hashlib, json
sys.dont_write_bytecode = True
sys.path.insert(0, '/repo')
from configparser import ConfigParser
from pkg_resources import resource_filename
from jellyfysh.base.exceptions import EndOfRun
import jellyfysh.setting as setting

def attach(med, log):
    sh = med._state_handler
    real = sh.insert_into_global_state
    depth=[0]
    def ins(out_state):
        if depth[0]==0:
            def rec(c): 
                u=c.value
                return (u.identifier, tuple(u.position), None if u.velocity is None else tuple(u.velocity), None if u.time_stamp is None else (u.time_stamp.quotient,u.time_stamp.remainder), [rec(x) for x in c.children])
            log.append(("commit", med._event_handler_with_shortest_event_time.__class__.__name__, [rec(c) for c in out_state]))
        depth[0]+=1
        try: return real(out_state)
        finally: depth[0]-=1
    sh.insert_into_global_state = ins

mode = sys.argv[1]
if mode == "run":
    from jellyfysh.base import factory
    from jellyfysh.base.strings import to_camel_case
    ini, sched, interval, endt = sys.argv[2:6]
    config = ConfigParser(); assert config.read(resource_filename("jellyfysh", ini))
    for sec in config.sections():
        if sec.endswith("OutputHandler") and config.has_option(sec, "filename"):
            config.set(sec, "filename", "/tmp/exp/d_%s.dat" % sec)
    if config.has_section("FactorTypeMaps"): config.set("FactorTypeMaps","filename", resource_filename("jellyfysh", config.get("FactorTypeMaps","filename")))
    config.set("FinalTimeEndOfRunEventHandler", "end_of_run_time", endt)
    if not config.has_section("Dumping"):
        tg = config.get("TagActivator", "taggers") + ",\n dumping (no_in_state_tagger)"
        config.set("TagActivator", "taggers", tg)
        config.add_section("Dumping"); config.set("Dumping","create","dumping"); config.set("Dumping","trash","dumping"); config.set("Dumping","event_handler","fixed_interval_dumping_event_handler")
        config.add_section("FixedIntervalDumpingEventHandler"); config.set("FixedIntervalDumpingEventHandler","output_handler","dumping_output_handler")
        config.add_section("DumpingOutputHandler"); config.set("DumpingOutputHandler","filename","/tmp/exp/dump.dat")
        config.set("StartOfRun","create", config.get("StartOfRun","create")+", dumping")
        config.set("EndOfRun","trash", config.get("EndOfRun","trash")+", dumping")
        config.set("InputOutputHandler","output_handlers", config.get("InputOutputHandler","output_handlers")+", dumping_output_handler")
    config.set("FixedIntervalDumpingEventHandler", "dumping_interval", interval)
    config.set("SingleProcessMediator", "scheduler", sched)
    random.seed(11)
    factory.build_from_config(config, to_camel_case(config.get("Run", "setting")), "jellyfysh.setting")
    med = factory.build_from_config(config, to_camel_case(config.get("Run", "mediator")), "jellyfysh.mediator")
    log = []
    attach(med, log)
    doh = med._input_output_handler._output_handlers_dictionary["dumping_output_handler"]
    realw = doh.write
    n=[0]
    marks = []
    def w(m):
        # detach harness wrappers before pickling? they are closures on instance -> dill may pickle them. remove temporarily
        sh = m._state_handler
        saved = sh.__dict__.pop('insert_into_global_state')
        savedw = doh.__dict__.pop('write')
        try:
            realw(m)
        finally:
            sh.insert_into_global_state = saved; doh.write = savedw
        shutil.copy(doh._output_filename, "/tmp/exp/dump_%d.dat" % n[0]); marks.append(len(log)); n[0]+=1
    doh.write = w
    try:
        with contextlib.redirect_stdout(io.StringIO()): med.run()
    except EndOfRun: pass
    json.dump({"log": [repr(x) for x in log], "marks": marks}, open("/tmp/exp/dump_ref.json","w"))
    print("events", len(log), "dumps", n[0])
else:
    import dill, jellyfysh.base.uuid as uuid
    k = int(sys.argv[2])
    import jellyfysh.mediator  # as resume.py's imports would
    with open("/tmp/exp/dump_%d.dat" % k, "rb") as f:
        med, dsetting, duuid, rstate = dill.load(f)
    med.update_logging()
    setting.__dict__.update(dsetting.__dict__); uuid.__dict__.update(duuid.__dict__); random.setstate(rstate)
    log=[]; attach(med, log)
    # keep writing further dumps harmlessly
    try:
        with contextlib.redirect_stdout(io.StringIO()): med.run()
    except EndOfRun: pass
    ref = json.load(open("/tmp/exp/dump_ref.json"))
    tail = ref["log"][ref["marks"][k]:]
    mine = [repr(x) for x in log]
    print("dump", k, "resumed events", len(mine), "ref tail", len(tail), "EQUAL" if mine == tail else "DIFF")
    if mine != tail:
        for i,(a,b) in enumerate(zip(mine, tail)):
            if a!=b: print(i, a[:300]); print(i, b[:300]); break
