import sys, pickle, time, collections
sys.dont_write_bytecode = True
sys.path.insert(0, '/repo')
from jellyfysh.scheduler.heap_scheduler.heap_scheduler import HeapScheduler, lib
from jellyfysh.scheduler.list_scheduler import ListScheduler
from jellyfysh.base.time import Time, inf
from jellyfysh.base.exceptions import SchedulerError
class H:
    def __init__(s, n): s.n=n
    def __repr__(s): return "H%d"%s.n
NH = 3
TIMES = [(0.0,0.25),(0.0,0.5),(1.0,0.25),(1.0,0.5),(float('inf'),float('inf'))]
def canon(heap, hs, ref, last):
    ents = []
    i = 0
    while True:
        e = lib.entry(heap._heap, i)
        if e.event_handler == heap_ffi_null: break
        from jellyfysh.scheduler.heap_scheduler.heap_scheduler import _from_handle
        ents.append((e.time_quotient, e.time_remainder, _from_handle(e.event_handler).n, e.counter)); i += 1
    return (tuple(ents), tuple(heap._minimal_valid_counter.get(h,0) for h in hs), tuple(sorted(ref.items())), last)
from jellyfysh.scheduler.heap_scheduler.heap_scheduler import ffi
heap_ffi_null = ffi.NULL

def initial(prefill=0, counter=0):
    hs = [H(i) for i in range(NH)]
    heap, lst = HeapScheduler(), ListScheduler()
    ref = {}
    # prefill with dead entries of handler NH-1.. (push+trash), times ascending pattern
    for j in range(prefill):
        h = hs[j % NH]; t = Time(float(j % 2), 0.25 + 0.5*((j//2) % 2))
        for s in (heap, lst): s.push_event(t, h); 
        for s in (heap, lst): s.trash_event(h)
    if counter:
        for h in hs: heap._minimal_valid_counter[h] = counter
    return heap, lst, hs, ref, None

def ops(ref, last):
    for i in range(NH):
        if i in ref: yield ("trash", i)
        else:
            for t in TIMES:
                if last is None or not (t < last): yield ("push", i, t)
    yield ("get",)
    yield ("pickle",)

def apply(state, op):
    heap, lst, hs, ref, last = state
    if op[0] == "push":
        t = Time(*op[2]) if op[2][0] != float('inf') else inf
        heap.push_event(t, hs[op[1]]); lst.push_event(t, hs[op[1]]); ref[op[1]] = op[2]
    elif op[0] == "trash":
        heap.trash_event(hs[op[1]]); lst.trash_event(hs[op[1]]); del ref[op[1]]
    elif op[0] == "pickle":
        heap, lst, hs = pickle.loads(pickle.dumps((heap, lst, hs)))
    else:
        finite = {k:v for k,v in ref.items() if v[0] != float('inf')}
        exp = min(ref.values()) if ref else None
        try: hh = heap.get_succeeding_event(); rh = ("ok", hh.n)
        except SchedulerError: rh = ("err",)
        try: hl = lst.get_succeeding_event(); rl = ("ok", hl.n)
        except SchedulerError as e: rl = ("err", str(e)[:200], [ (el.time, el.event_handler) for el in lst._times], lst._last_returned_event)
        if not ref:
            assert rh == ("err",) and rl[0] == "err", (rh, rl)
        elif not finite:
            assert rh == ("err",), rh
            assert rl[0] == "ok" and ref[rl[1]] == exp
            last = exp
        else:
            assert rh[0] == "ok" and ref[rh[1]] == exp, (rh, ref, exp)
            assert rl[0] == "ok" and ref[rl[1]] == exp, (rl, ref, exp, last)
            last = exp
    return heap, lst, hs, ref, last

def bfs(depth, **kw):
    s0 = initial(**kw)
    seen = {canon(s0[0], s0[2], s0[3], s0[4])}
    frontier = [pickle.dumps(s0)]
    trans = 0
    for d in range(depth):
        nxt = []
        for blob in frontier:
            base = pickle.loads(blob)
            for op in list(ops(base[3], base[4])):
                st = pickle.loads(blob)
                st = apply(st, op); trans += 1
                c = canon(st[0], st[2], st[3], st[4])
                if c not in seen:
                    seen.add(c); nxt.append(pickle.dumps(st))
        frontier = nxt
        print("  depth", d+1, "states", len(seen), "frontier", len(frontier), "transitions", trans)
    return len(seen), trans
t=time.time(); print("empty start"); bfs(int(sys.argv[1])); print("time %.1f" % (time.time()-t))
t=time.time(); print("prefill 62"); bfs(4, prefill=62); print("time %.1f" % (time.time()-t))
t=time.time(); print("counter 2^32-2"); bfs(5, counter=2**32-2); print("time %.1f" % (time.time()-t))
