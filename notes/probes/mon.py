import sys, os, time, random, io, contextlib, math, copy, collections
sys.dont_write_bytecode = True
sys.path.insert(0, '/repo')
from configparser import ConfigParser
from pkg_resources import resource_filename
from jellyfysh.base import factory
from jellyfysh.base.strings import to_camel_case
from jellyfysh.base.exceptions import EndOfRun
from jellyfysh.base.time import Time
from jellyfysh.base.node import yield_leaf_nodes, yield_nodes_on_level_below
import jellyfysh.setting as setting

class Pause(Exception): pass

def build(ini):
    config = ConfigParser()
    assert config.read(ini if os.path.isabs(ini) else resource_filename("jellyfysh", ini))
    for sec in config.sections():
        if sec.endswith("OutputHandler") and config.has_option(sec, "filename"):
            config.set(sec, "filename", "/tmp/exp/mon_%s.dat" % sec)
    if config.has_section("FactorTypeMaps"):
        config.set("FactorTypeMaps","filename", resource_filename("jellyfysh", config.get("FactorTypeMaps","filename")))
    factory.build_from_config(config, to_camel_case(config.get("Run", "setting")), "jellyfysh.setting")
    return factory.build_from_config(config, to_camel_case(config.get("Run", "mediator")), "jellyfysh.mediator")

def snap(sh):
    """full global state as dict id -> (pos, vel, (q,r))"""
    out = {}
    def rec(c):
        u = c.value
        out[u.identifier] = (tuple(u.position), None if u.velocity is None else tuple(u.velocity),
                             None if u.time_stamp is None else (u.time_stamp.quotient, u.time_stamp.remainder), u.charge)
        for ch in c.children: rec(ch)
    for r in sh.extract_global_state(): rec(r)
    return out

def tsub(a, b):  # exact-ish difference of (q,r) pairs
    return (a[0]-b[0]) + (a[1]-b[1])

def wrapdiff(a, b, L):
    d = (a-b) % L
    return min(d, L-d)

ini = sys.argv[1]; nev = int(sys.argv[2]); seed = int(sys.argv[3]) if len(sys.argv)>3 else 1
random.seed(seed)
with contextlib.redirect_stdout(io.StringIO()):
    med = build(ini)
sh, act, sch = med._state_handler, med._activator, med._scheduler
from jellyfysh.setting import hypercuboid_setting as hs
Ls = hs.system_lengths
dim = setting.dimension
viol = collections.Counter()
examples = {}
def V(kind, msg):
    viol[kind]+=1
    examples.setdefault(kind, msg)

# shadow bookkeeping
pending = {}   # handler -> (tagger, identifiers, basis snapshot {id: (pos, vel, ts)})
tagger_of = act._event_handler_tagger_dictionary
orig_get = act.get_event_handlers_to_run
state = {"last_time": None, "nev": 0, "prev": None}

def basis_for(ids):
    g = snap(sh)
    res = {}
    if ids is None: return res
    for ident in ids:
        # include ancestors and descendants
        for k, v in g.items():
            if k[:len(ident)] == ident or ident[:len(k)] == k:
                res[k] = v
    return res

def get_wrapper(active_state, preceding):
    fn = act.__dict__.get('get_event_handlers_to_run_REAL')
    res = fn(active_state, preceding)
    for h, ids in res.items():
        if h in pending: V("C09-double", "handler already pending %s" % h.__class__.__name__)
        pending[h] = (tagger_of[h], None if ids is None else tuple(ids), basis_for(ids))
    return res
# TagActivator replaces get_event_handlers_to_run on first call by instance attr; handle by wrapping both
real_first = act.get_event_handlers_to_run
def first(active_state, preceding):
    res = real_first(active_state, preceding)
    # now instance attribute was set to _get_event_handlers_to_run_update; re-wrap
    real_upd = act.__dict__['get_event_handlers_to_run']
    def upd(a, p):
        r = real_upd(a, p)
        for h, ids in r.items():
            if h in pending: V("C09-double", "handler already pending %s" % h.__class__.__name__)
            pending[h] = (tagger_of[h], None if ids is None else tuple(ids), basis_for(ids))
        return r
    act.get_event_handlers_to_run = upd
    for h, ids in res.items():
        pending[h] = (tagger_of[h], None if ids is None else tuple(ids), basis_for(ids))
    return res
act.get_event_handlers_to_run = first

real_trash = act.get_trashable_events
def trash(h):
    r = real_trash(h)
    for x in r:
        if x not in pending: V("C09-trash-nonpending", x.__class__.__name__)
        pending.pop(x, None)
    return r
act.get_trashable_events = trash

real_succ = sch.get_succeeding_event
interaction_taggers = ("FactorTypeMapInStateTagger","CellVetoTagger","CellBoundingPotentialTagger","ExcludedCellsTagger","SurplusCellsTagger","CellBoundaryTagger")
def check_c09():
    active = sh.extract_active_global_state()
    for tg in act._taggers:
        fresh = collections.Counter(x if x is None else tuple(x) for x in tg.yield_identifiers_send_event_time(active))
        have = collections.Counter(ids for h,(t,ids,b) in pending.items() if t is tg)
        base = [c.__name__ for c in type(tg).__mro__]
        if any(b in interaction_taggers for b in base):
            if fresh != have:
                if state["nev"] >= 1: V("C09-"+tg.tag, "tagger %s fresh=%s have=%s after %s" % (tg.tag, dict(fresh), dict(have), state.get("last_handler")))
        else:
            if sum(fresh.values()) != sum(have.values()):
                if state["nev"] >= 1 and tg is not tagger_of[act._start_of_run_event_handler]:
                    V("C09n-"+tg.tag, "tagger %s fresh=%d have=%d after %s" % (tg.tag, sum(fresh.values()), sum(have.values()), state.get("last_handler")))
def check_c11():
    g = snap(sh)
    for ist in act._internal_states:
        cells = ist.cells; lvl = ist.cell_level
        rec = collections.Counter()
        where = {}
        for cell in cells.yield_cells():
            for ident in ist[cell]:
                rec[ident]+=1; where[ident]=cell
            if not ist._number_occupants_not_bounded and len(ist[cell]) > ist._maximum_number_occupants:
                V("C11-cap", "too many occupants")
        for cell, lst in ist._surplus.items():
            for ident in lst:
                rec[ident]+=1; where[ident]=cell
        act_cells = list(ist.yield_active_cells())
        active_ids = [a for c,a in act_cells]
        for ident,(pos,vel,ts,charge) in g.items():
            if len(ident) != lvl: continue
            u = type("U",(),{"charge":charge})
            if not ist._is_relevant_unit(u): 
                if rec[ident] or ident in active_ids: V("C11-irrelevant", str(ident))
                continue
            # current position now: advance to current global time? positions are time-sliced at their stamp; inactive fixed
            if ident in active_ids:
                if rec[ident]: V("C11-active-listed", str(ident))
                cell = [c for c,a in act_cells if a==ident][0]
            else:
                if rec[ident] != 1: V("C11-count", "%s recorded %d times" % (ident, rec[ident])); continue
                cell = where[ident]
            if vel is None or ident in active_ids:
                # position at its stamp should be within recorded cell (for active: at time stamp)
                if not all(cell.cell_min[d] <= pos[d] <= cell.cell_max[d] for d in range(dim)):
                    V("C11-pos", "%s pos %s not in cell %s [%s,%s] active=%s" % (ident, pos, cell.identifier, cell.cell_min, cell.cell_max, ident in active_ids))
def check_c08_eager():
    g = snap(sh)
    for h,(tg, ids, basis) in pending.items():
        if tg is not None and any(b.__name__ in interaction_taggers[:5] for b in type(tg).__mro__):
            for ident,(pos,vel,ts,ch) in basis.items():
                p2,v2,t2,_ = g[ident]
                if v2 != vel: V("C08e-vel", "%s handler %s basis vel %s now %s after %s" % (ident, h.__class__.__name__, vel, v2, state.get("last_handler"))); continue
                if vel is None:
                    if p2 != pos: V("C08e-pos", "%s" % (ident,))
                else:
                    dt = tsub(t2, ts)
                    for d in range(dim):
                        if wrapdiff(pos[d] + vel[d]*dt, p2[d], Ls[d]) > 1e-9: V("C08e-traj", "%s d=%d" % (ident,d))
def gs():
    try:
        check_c08_eager()
        check_c09()
        check_c11()
    except Exception as e:
        import traceback; traceback.print_exc(); raise
    h = real_succ()
    state["cur"] = h
    return h
sch.get_succeeding_event = gs

real_ins = sh.insert_into_global_state
depth = [0]
def ins(out_state):
    if depth[0] == 0:
        h = state["cur"]
        before = snap(sh)
        # C08
        tg, ids, basis = pending.get(h, (None,None,{}))
        if tg is not None and any(b.__name__ in interaction_taggers[:5] for b in type(tg).__mro__):
            for ident,(pos,vel,ts,ch) in basis.items():
                p2,v2,t2,_ = before[ident]
                if v2 != vel: V("C08-vel", "%s handler %s basis vel %s now %s" % (ident, h.__class__.__name__, vel, v2)); continue
                if vel is None:
                    if p2 != pos: V("C08-pos", "%s" % (ident,))
                else:
                    dt = tsub(t2, ts)
                    for d in range(dim):
                        if wrapdiff(pos[d] + vel[d]*dt, p2[d], Ls[d]) > 1e-9: V("C08-traj", "%s d=%d" % (ident,d))
        depth[0]+=1
        try: real_ins(out_state)
        finally: depth[0]-=1
        after = snap(sh)
        # event time = max time stamp among after
        stamps = [t for (_,v,t,_) in after.values() if t is not None]
        if not stamps:
            return
        tmax = max(stamps)
        state["nev"] += 1
        state["last_handler"] = h.__class__.__name__
        # C07 monotone
        if state["last_time"] is not None and tmax < state["last_time"]: V("C07-time", "%s < %s" % (tmax, state["last_time"]))
        # continuity
        for ident,(p1,v1,t1,c1) in before.items():
            p2,v2,t2,c2 = after[ident]
            if c1 != c2: V("C07-charge", str(ident))
            if v1 is None:
                if p1 != p2: V("C07-inactive-moved", "%s by %s" % (ident, h.__class__.__name__))
            else:
                # position at time t: if still moving, its stamp t2; else compare at event time
                tt = t2 if t2 is not None else tmax
                dt = tsub(tt, t1)
                if dt < -1e-12: V("C07-backwards", "%s dt=%g %s" % (ident, dt, h.__class__.__name__))
                for d in range(dim):
                    if wrapdiff(p1[d]+v1[d]*dt, p2[d], Ls[d]) > 1e-9:
                        V("C07-jump", "%s d=%d by %s: %s -> %s dt=%g" % (ident, d, h.__class__.__name__, p1, p2, dt))
            for d in range(dim):
                if not (0.0 <= p2[d] < Ls[d]): V("C07-box", "%s pos %r" % (ident, p2[d]))
        # one chain
        nlev = setting.number_of_node_levels
        moving_leaves = [(i,v) for i,(p,v,t,c) in after.items() if len(i)==nlev and v is not None]
        vs = set(v for i,v in moving_leaves)
        if len(vs) != 1: V("C07-chain", "velocities %s" % vs)
        else:
            sp = math.sqrt(sum(x*x for x in list(vs)[0]))
            if abs(sp-1.0) > 1e-9: V("C07-speed", str(sp))
        roots = set(i[0] for i,v in moving_leaves)
        if len(moving_leaves) != 1 and not (len(roots)==1 and len(moving_leaves)==setting.number_of_nodes_per_root_node):
            V("C07-chainshape", str([i for i,v in moving_leaves]))
        # C12
        if nlev == 2:
            npr = setting.number_of_nodes_per_root_node
            for r in range(setting.number_of_root_nodes):
                pr, vr, tr, _ = after[(r,)]
                lv = [after[(r,k)] for k in range(npr)]
                w = 1.0/npr
                vsum = [sum((l[1][d] if l[1] is not None else 0.0)*w for l in lv) for d in range(dim)]
                if vr is None:
                    if any(abs(x) > 1e-12 for x in vsum): V("C12-vel-none", "root %d vsum %s" % (r, vsum))
                    if any(l[1] is not None for l in lv): V("C12-absent", "root %d has moving leaf but no vel" % r)
                    prt = pr
                else:
                    if any(abs(vr[d]-vsum[d]) > 1e-12 for d in range(dim)): V("C12-vel", "root %d %s vs %s after %s" % (r, vr, vsum, h.__class__.__name__))
                    if all(l[1] is None for l in lv): V("C12-present", "root %d vel but no moving leaf" % r)
                    dt = tsub(tmax, tr)
                    prt = [pr[d] + vr[d]*dt for d in range(dim)]
                # barycentre with nearest images at time tmax
                bary = [0.0]*dim
                for (pl, vl, tl, _) in lv:
                    if vl is not None:
                        dt = tsub(tmax, tl); pl = [pl[d]+vl[d]*dt for d in range(dim)]
                    for d in range(dim):
                        s = ((pl[d]-prt[d]) + Ls[d]/2) % Ls[d] - Ls[d]/2
                        bary[d] += w*s
                if any(abs(b) > 1e-9 for b in bary): V("C12-bary", "root %d offset %s after %s" % (r, bary, h.__class__.__name__))
        state["last_time"] = tmax
        if state["nev"] >= nev: raise Pause()
    else:
        depth[0]+=1
        try: real_ins(out_state)
        finally: depth[0]-=1
sh.insert_into_global_state = ins
t0=time.time()
try:
    with contextlib.redirect_stdout(io.StringIO()):
        med.run()
except (Pause, EndOfRun) as e:
    pass
print(ini.split('/')[-2:], "events", state["nev"], "time %.2f" % (time.time()-t0), "violations", dict(viol))
for k,v in examples.items(): print("   ", k, ":", v[:300])
