import sys, os, time, random, io, contextlib, math, types, hashlib, collections
sys.dont_write_bytecode = True
sys.path.insert(0, '/repo')
from configparser import ConfigParser
from pkg_resources import resource_filename
import dill
from jellyfysh.base import factory
from jellyfysh.base.strings import to_camel_case
from jellyfysh.base.exceptions import EndOfRun
from jellyfysh.base.node import Node
from jellyfysh.base.particle import Particle
import jellyfysh.setting as setting
from jellyfysh.input_output_handler.input_handler.input_handler import InputHandler
from jellyfysh.input_output_handler.output_handler.output_handler import OutputHandler

# ---- harness input/output handlers registered as fake modules for the real factory
vin = types.ModuleType("jellyfysh.input_output_handler.input_handler.verif_input_handler")
class VerifInputHandler(InputHandler):
    CONFIG = None   # list of roots: (pos, charge) or (pos, [(pos, charge),...])
    def __init__(self, number_of_root_nodes: int, number_of_nodes_per_root_node: int, number_of_node_levels: int) -> None:
        super().__init__()
        setting.set_number_of_root_nodes(number_of_root_nodes)
        setting.set_number_of_nodes_per_root_node(number_of_nodes_per_root_node)
        setting.set_number_of_node_levels(number_of_node_levels)
    def read(self):
        nodes = []
        for root in VerifInputHandler.CONFIG:
            if isinstance(root[1], list):
                n = Node(Particle(list(root[0])))
                for (p, c) in root[1]: n.add_child(Node(Particle(list(p), dict(c))))
            else:
                n = Node(Particle(list(root[0]), dict(root[1])))
            nodes.append(n)
        return nodes
vin.VerifInputHandler = VerifInputHandler
sys.modules[vin.__name__] = vin

SAMPLES = []
vout = types.ModuleType("jellyfysh.input_output_handler.output_handler.verif_output_handler")
class VerifOutputHandler(OutputHandler):
    def __init__(self) -> None:
        super().__init__("verif.dat")
    def write(self, extracted_global_state):
        SAMPLES.append(len(extracted_global_state))
    def post_run(self): pass
vout.VerifOutputHandler = VerifOutputHandler
sys.modules[vout.__name__] = vout

class Pause(Exception): pass

# ---- random seam
class Env:
    def __init__(self): self.script = {}; self.log = []; self.beta=None
    def reset(self, script): self.script = dict(script); self.log = []
    def _ans(self, kind, default, alts):
        i = len(self.log)
        a = self.script.get(i, 0)
        self.log.append((kind, a, len(alts)))
        return ([default]+alts)[a]
    def expovariate(self, lambd):
        return self._ans("E", -math.log(0.5)/lambd, [-math.log(0.98)/lambd, -math.log(0.02)/lambd])
    def uniform(self, a, b):
        return a + (b-a)*self._ans("U", 0.25, [0.75])
    def randint(self, a, b):
        return self._ans("I", a, list(range(a+1, b+1)))
    def choice(self, seq):
        return seq[self._ans("C", 0, list(range(1, len(seq))))]
    def random(self):
        return self._ans("R", 0.25, [0.75])
ENV = Env()
import jellyfysh.event_handler.single_independent_active_periodic_direction_end_of_chain_event_handler as eocmod
_REAL = dict(expovariate=random.expovariate, uniform=random.uniform, randint=random.randint, choice=random.choice, random=random.random)
def uninstall():
    for k,v in _REAL.items(): setattr(random, k, v)
    eocmod.randint = _REAL["randint"]
def install():
    random.expovariate = ENV.expovariate; random.uniform = ENV.uniform; random.randint = ENV.randint
    random.choice = ENV.choice; random.random = ENV.random
    eocmod.randint = ENV.randint

def build_template(ini, input_override=None):
    config = ConfigParser(); assert config.read(ini if os.path.isabs(ini) else resource_filename("jellyfysh", ini))
    for sec in config.sections():
        if sec.endswith("OutputHandler") and config.has_option(sec, "filename"):
            config.set(sec, "filename", "/tmp/exp/envx_%s.dat" % sec)
    if config.has_section("FactorTypeMaps"):
        config.set("FactorTypeMaps","filename", resource_filename("jellyfysh", config.get("FactorTypeMaps","filename")))
    uninstall(); random.seed(12345)
    with contextlib.redirect_stdout(io.StringIO()):
        factory.build_from_config(config, to_camel_case(config.get("Run", "setting")), "jellyfysh.setting")
        med = factory.build_from_config(config, to_camel_case(config.get("Run", "mediator")), "jellyfysh.mediator")
    return dill.dumps(med)

def run(template, script, H):
    med = dill.loads(template)
    install(); ENV.reset(script)
    log = []; legs = [0]; draws_at_leg = []
    sh, act = med._state_handler, med._activator
    real_ins = sh.insert_into_global_state; depth=[0]
    def ins(out_state):
        if depth[0]==0:
            def rec(c):
                u=c.value
                return (u.identifier, tuple(u.position), None if u.velocity is None else tuple(u.velocity), None if u.time_stamp is None else (u.time_stamp.quotient,u.time_stamp.remainder), tuple(rec(x) for x in c.children))
            log.append((med._event_handler_with_shortest_event_time.__class__.__name__, tuple(rec(c) for c in out_state)))
        depth[0]+=1
        try: return real_ins(out_state)
        finally: depth[0]-=1
    sh.insert_into_global_state = ins
    real_get = act.get_event_handlers_to_run
    def get(a, p):
        legs[0]+=1; draws_at_leg.append(len(ENV.log))
        if legs[0] > H: raise Pause()
        # call through whatever the activator currently has (it swaps its own method on first call)
        return real_get(a, p) if 'get_event_handlers_to_run' not in act.__dict__ or act.__dict__['get_event_handlers_to_run'] is get else act.__dict__['get_event_handlers_to_run'](a,p)
    # TagActivator replaces instance attr on first call; handle generically by wrapping class-level dispatch
    cls = type(act)
    state = {"first": True}
    orig_first = act.get_event_handlers_to_run
    def wrapper(a, p):
        legs[0]+=1; draws_at_leg.append(len(ENV.log))
        if legs[0] > H: raise Pause()
        if p is None:
            r = orig_first(a, p)
            state["upd"] = act.__dict__.get("get_event_handlers_to_run")
            act.get_event_handlers_to_run = wrapper
            return r
        return state["upd"](a, p)
    act.get_event_handlers_to_run = wrapper
    try:
        with contextlib.redirect_stdout(io.StringIO()): med.run()
    except (Pause, EndOfRun): pass
    return log, list(ENV.log), draws_at_leg

if __name__ == "__main__":
    install()
    ini = sys.argv[1]; H = int(sys.argv[2])
    g0 = random.getstate()
    t=time.time(); tpl = build_template(ini); tb=time.time()-t
    log0, draws, dl = run(tpl, {}, H)
    log0b, _, _ = run(tpl, {}, H)
    assert log0 == log0b, "nondeterministic replay"
    kinds = collections.Counter(k for k,_,_ in draws)
    t=time.time(); n=0; outcomes=set([hashlib.sha1(repr(log0).encode()).hexdigest()])
    for i,(k,_,nalt) in enumerate(draws):
        for a in range(1, min(nalt,3)+1):
            lg, dr, _ = run(tpl, {i:a}, H); n+=1
            outcomes.add(hashlib.sha1(repr(lg).encode()).hexdigest())
    dt=time.time()-t
    print(ini.split('/')[-2:], "build %.2fs tpl %dB" % (tb, len(tpl)), "H", H, "commits", len(log0), "draws", len(draws), dict(kinds), "k=1 execs", n, "%.2fs (%.1f ms/exec)" % (dt, 1000*dt/max(n,1)), "distinct outcomes", len(outcomes), "handlers", collections.Counter(h for h,_ in log0).most_common(4))
