import sys, math, itertools
from fractions import Fraction as F
sys.dont_write_bytecode = True
sys.path.insert(0, '/repo')
from jellyfysh.base.time import Time, inf
def ulp(x): return math.ulp(x)
qs = [0.0, 1.0, 2.0, 1024.0, 2.0**31, 2.0**52-1, 2.0**52]
rs = [0.0, 5e-324, 2.0**-53, 0.25, math.nextafter(0.5,0), 0.5, math.nextafter(0.5,1), 0.75, 1-2.0**-53, 0.1, 0.9]
dts = sorted(set([0.0, 5e-324, 1e-300, 2.0**-60, 2.0**-53, 1e-9, 0.1, 0.25, math.nextafter(0.5,0), 0.5, 0.75, 0.9, math.nextafter(1.0,0), 1.0, math.nextafter(1.0,2), 1.5, 3.0, 1e3+0.3, 2.0**40, 2.0**40+0.5]))
bad = []
n=0
for q in qs:
    for r in rs:
        t = Time(q, r); exact = F(q)+F(r)
        prev = None
        for dt in dts:
            res = t + dt; n+=1
            if not (res.quotient == math.floor(res.quotient) and 0.0 <= res.remainder < 1.0): bad.append(("norm", q, r, dt, res))
            ex = exact + F(dt); got = F(res.quotient)+F(res.remainder)
            if abs(got-ex) > F(ulp(r+dt)): bad.append(("err", q, r, dt, res, float(got-ex)))
            if got < exact: bad.append(("decrease", q, r, dt, res))
            if prev is not None and got < prev: bad.append(("nonmono", q, r, dt, res))
            prev = got
        res = t + float('inf')
        if not (res == inf and res > t and not (res < t)): bad.append(("inf", q, r))
print("add cases", n, "bad", len(bad)); print(bad[:8])
# comparisons
ts = [Time(q, r) for q in qs for r in rs]
bad=[]; n=0
for a in ts:
    for b in ts:
        ea = F(a.quotient)+F(a.remainder); eb = F(b.quotient)+F(b.remainder); n+=1
        if (a<b)!=(ea<eb) or (a<=b)!=(ea<=eb) or (a>b)!=(ea>eb) or (a>=b)!=(ea>=eb) or (a==b)!=(ea==eb) or (a!=b)!=(ea!=eb): bad.append((a,b))
        d = a - b
        if abs(F(d) - (ea-eb)) > 4*F(ulp(max(1.0, abs(float(ea-eb))))): bad.append(("sub", a, b, d, float(ea-eb)))
print("cmp cases", n, "bad", len(bad)); print(bad[:6])
# from_float
bad=[]
for x in [0.0, 5e-324, 0.1, 0.5, 1-2.0**-53, 1.0, 1.5, 2.0**40+0.5, 2.0**52+1, 1e15+0.3, 123456.789]:
    t = Time.from_float(x)
    if F(t.quotient)+F(t.remainder) != F(x) or not (0<=t.remainder<1) or t.quotient != math.floor(t.quotient): bad.append((x,t))
print("from_float bad", bad)
