"""P<=1 preemption sweep over the real MultiProcessMediator with fake multiprocessing (prototype)."""
import sys, os, time, random, io, contextlib, hashlib, copy, threading
sys.dont_write_bytecode = True
sys.path.insert(0, '/repo'); sys.path.insert(0, '/tmp/exp')
from configparser import ConfigParser
from pkg_resources import resource_filename
from jellyfysh.base import factory
from jellyfysh.base.strings import to_camel_case
from jellyfysh.base.exceptions import EndOfRun
import jellyfysh.setting as setting
from jellyfysh.activator.tagger.factor_type_maps import FactorTypeMaps
import fakemp
import jellyfysh.mediator.multi_process_mediator.multi_process_mediator as mpm
import jellyfysh.mediator.multi_process_mediator.or_event as ore

class Stop(Exception): pass

def make_config(ini, mp, cores):
    config = ConfigParser(); assert config.read(ini)
    for sec in config.sections():
        if sec.endswith("OutputHandler") and config.has_option(sec, "filename"):
            config.set(sec, "filename", "/tmp/exp/sx_%s.dat" % sec)
    config.set("FactorTypeMaps","filename", resource_filename("jellyfysh", config.get("FactorTypeMaps","filename")))
    config.set("FinalTimeEndOfRunEventHandler", "end_of_run_time", "2000")
    if mp:
        config.set("Run", "mediator", "multi_process_mediator")
        config.add_section("MultiProcessMediator")
        for k, v in config.items("SingleProcessMediator"): config.set("MultiProcessMediator", k, v)
        config.set("MultiProcessMediator", "number_cores", str(cores))
    return config

def run_once(ini, mp, cores, H, schedule):
    """schedule: dict point_index -> chosen tid (deviation); default: continue current thread / lowest enabled"""
    setting.reset(); FactorTypeMaps._instance = None
    config = make_config(ini, mp, cores)
    points = []
    if mp:
        def chooser(enabled, cur, desc):
            i = len(points)
            default = cur if cur in enabled else enabled[0]
            choice = schedule.get(i, default)
            if choice not in enabled: raise RuntimeError("replay divergence at point %d" % i)
            points.append((cur, tuple(enabled), default, desc))
            return choice
        fakemp._pc[0] = 0; fakemp.Event._n = 0
        fakemp.SCHED = fakemp.Sched(chooser)
        mpm.multiprocessing = fakemp.FakeMP; mpm.connection = fakemp.FakeConn; ore.Event = fakemp.Event
    random.seed(5)
    if mp: fakemp.SCHED.register_main()
    with contextlib.redirect_stdout(io.StringIO()):
        factory.build_from_config(config, to_camel_case(config.get("Run", "setting")), "jellyfysh.setting")
        med = factory.build_from_config(config, to_camel_case(config.get("Run", "mediator")), "jellyfysh.mediator")
    log = []
    sh = med._state_handler; orig = sh.insert_into_global_state; depth=[0]
    def ins(out_state):
        if depth[0]==0:
            log.append([(c.value.identifier, tuple(c.value.position), None if c.value.velocity is None else tuple(c.value.velocity), repr(c.value.time_stamp)) for c in out_state])
            if len(log) > H: raise Stop()
        depth[0]+=1
        try: return orig(out_state)
        finally: depth[0]-=1
    sh.insert_into_global_state = ins
    if not mp:
        S0 = random.getstate(); streams = {}
        for h in med._event_handlers_list:
            for name in ("send_event_time", "send_out_state"):
                f = getattr(h, name)
                def mk(f, h):
                    def w(*a, **k):
                        outer = random.getstate(); random.setstate(streams.get(h, S0))
                        try: return f(*a, **k)
                        finally: streams[h] = random.getstate(); random.setstate(outer)
                    return w
                setattr(h, name, mk(f, h))
    err = None
    try:
        with contextlib.redirect_stdout(io.StringIO()): med.run()
    except (EndOfRun, Stop): pass
    except fakemp.Deadlock as e: err = "deadlock: %s" % e
    if mp: fakemp.SCHED.kill_all()
    return log[:H], points, err

ini = sys.argv[1]; cores = int(sys.argv[2]); H = int(sys.argv[3])
ref, _, _ = run_once(ini, False, cores, H, {})
t = time.time()
log0, pts0, err = run_once(ini, True, cores, H, {})
assert err is None and log0 == ref, (err, len(log0), len(ref))
n = 1; bad = 0; outcomes = {hashlib.sha1(repr(log0).encode()).hexdigest()}
for i, (cur, enabled, default, desc) in enumerate(pts0):
    for alt in enabled:
        if alt == default: continue
        lg, pts, err = run_once(ini, True, cores, H, {i: alt}); n += 1
        if err or lg != ref:
            bad += 1; print("VIOLATION at point", i, desc, "alt", alt, err, len(lg))
        outcomes.add(hashlib.sha1(repr(lg).encode()).hexdigest())
print("cores", cores, "H", H, "default points", len(pts0), "executions", n, "bad", bad, "outcomes", len(outcomes), "threads alive", threading.active_count(), "time %.1f" % (time.time()-t))
