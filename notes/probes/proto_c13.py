import sys, copy, time, itertools
sys.dont_write_bytecode = True
sys.path.insert(0, '/repo')
import jellyfysh.setting as setting
from jellyfysh.setting.hypercubic_setting import HypercubicSetting
from jellyfysh.base.node import Node
from jellyfysh.base.particle import Particle
from jellyfysh.base.time import Time
from jellyfysh.state_handler.tree_state_handler import TreeStateHandler
from jellyfysh.state_handler.physical_state.tree_physical_state import TreePhysicalState
from jellyfysh.state_handler.lifting_state.tree_lifting_state import TreeLiftingState

NR, NC = 2, 2
START = sys.argv[2] if len(sys.argv) > 2 else 'rest'
HypercubicSetting(beta=1.0, dimension=2, system_length=1.0); setting.set_number_of_root_nodes(NR); setting.set_number_of_nodes_per_root_node(NC); setting.set_number_of_node_levels(2)

def fresh():
    roots = []
    model = {}
    for r in range(NR):
        n = Node(Particle([0.1*r+0.05, 0.2]))
        model[(r,)] = [[0.1*r+0.05, 0.2], None, None]
        for c in range(NC):
            p = [0.1*r+0.01*c, 0.2+0.01*c]
            n.add_child(Node(Particle(list(p), {"q": float(c)})))
            model[(r,c)] = [list(p), None, None]
        roots.append(n)
    sh = TreeStateHandler(TreePhysicalState(), TreeLiftingState()); sh.initialize(roots)
    if START == "leaf":
        b = sh.extract_from_global_state((0,0))
        b.value.velocity = [0.5, 0.0]; b.value.time_stamp = Time(1.0, 0.5)
        b.children[0].value.velocity = [1.0, 0.0]; b.children[0].value.time_stamp = Time(1.0, 0.5)
        sh.insert_into_global_state([b])
        model[(0,)][1:] = [[0.5,0.0], (1.0,0.5)]; model[(0,0)][1:] = [[1.0,0.0], (1.0,0.5)]
    return sh, model

IDS = [(r,) for r in range(NR)] + [(r,c) for r in range(NR) for c in range(NC)]
def read_global(sh):
    out = {}
    def rec(c):
        u = c.value
        out[u.identifier] = (list(u.position), None if u.velocity is None else list(u.velocity), None if u.time_stamp is None else (u.time_stamp.quotient, u.time_stamp.remainder))
        for ch in c.children: rec(ch)
    for root in sh.extract_global_state(): rec(root)
    return out
def read_branch(b):
    out = {}
    def rec(c):
        u = c.value
        out[u.identifier] = (list(u.position), None if u.velocity is None else list(u.velocity), None if u.time_stamp is None else (u.time_stamp.quotient, u.time_stamp.remainder))
        for ch in c.children: rec(ch)
    rec(b); return out
def model_view(model): return {k: (list(v[0]), None if v[1] is None else list(v[1]), v[2]) for k,v in model.items()}
def expected_ids(ident):
    return set(k for k in IDS if k[:len(ident)] == ident or ident[:len(k)] == k)
def find(b, ident):
    def rec(c):
        if c.value.identifier == ident: return c
        for ch in c.children:
            r = rec(ch)
            if r: return r
    return rec(b)

MUTS = [("pos", 0.777), ("vel", [1.0, 0.0]), ("vel", None), ("ts", (3.0, 0.5))]
def ops(branches):
    for ident in IDS: yield ("extract", ident)
    for bi, (b, ident, snap) in enumerate(branches):
        if snap is None: continue   # inserted branches are no longer mutated
        for nid in sorted(expected_ids(ident)):
            for m in MUTS: yield ("mutate", bi, nid, m)
        yield ("insert", bi)
    yield ("active",)

def run(seq):
    sh, model = fresh(); branches = []   # (branch, ident, expected snapshot dict or None after insert)
    for op in seq:
        if op[0] == "extract":
            b = sh.extract_from_global_state(op[1]); got = read_branch(b)
            exp = {k: v for k, v in model_view(model).items() if k in expected_ids(op[1])}
            assert got == exp, ("extract", seq, got, exp)
            branches.append([b, op[1], got])
        elif op[0] == "mutate":
            b, ident, snap = branches[op[1]]
            node = find(b, op[2]); kind, val = op[3]
            if kind == "pos": node.value.position[0] = val; snap[op[2]] = ([val, snap[op[2]][0][1]], snap[op[2]][1], snap[op[2]][2])
            elif kind == "vel":
                if val is None: node.value.velocity = None; node.value.time_stamp = None; snap[op[2]] = (snap[op[2]][0], None, None)
                else:
                    if node.value.velocity is None: node.value.velocity = list(val); node.value.time_stamp = Time(0.0, 0.25); snap[op[2]] = (snap[op[2]][0], list(val), (0.0,0.25))
                    else: node.value.velocity[0] = 2.0; snap[op[2]] = (snap[op[2]][0], [2.0, snap[op[2]][1][1]], snap[op[2]][2])
            else:
                if node.value.time_stamp is None: continue
                node.value.time_stamp.update(Time(*val)); snap[op[2]] = (snap[op[2]][0], snap[op[2]][1], val)
        elif op[0] == "insert":
            b, ident, snap = branches[op[1]]
            sh.insert_into_global_state([b])
            for k, v in snap.items(): model[k] = [list(v[0]), None if v[1] is None else list(v[1]), v[2]]
            branches[op[1]][2] = None
        else:
            act = sh.extract_active_global_state()
            got = []
            for c in act:
                if len(c.children) == NC: got.append(c.value.identifier)
                else: got += [ch.value.identifier for ch in c.children]
            got = sorted(got)
            moving = set(k for k, v in model.items() if v[1] is not None)
            exp = []
            for r in range(NR):
                if (r,) in moving:
                    kids = [(r,c) for c in range(NC) if (r,c) in moving]
                    exp += [(r,)] if len(kids) == NC else kids
            assert got == sorted(exp), ("active", seq, got, exp)
        # non-interference: global == model, all live un-inserted branches == their snapshots
        assert read_global(sh) == model_view(model), ("global", seq, op)
        for b, ident, snap in branches:
            if snap is not None: assert read_branch(b) == snap, ("branch", seq, op)
    return branches

def explore(depth):
    n = 0; frontier = [()]
    for d in range(depth):
        nxt = []
        for seq in frontier:
            brs = run(seq) if seq else []
            for op in ops(brs):
                s2 = seq + (op,); run(s2); n += 1
                if len([o for o in s2 if o[0]=="extract"]) <= 2: nxt.append(s2)
        frontier = nxt
        print(" depth", d+1, "sequences", n, "frontier", len(frontier))
t=time.time(); explore(int(sys.argv[1])); print("time %.1f" % (time.time()-t))
