import sys, random, itertools, time
from fractions import Fraction
sys.dont_write_bytecode = True
sys.path.insert(0, '/repo')
from jellyfysh.event_handler.walker import Walker, WalkerItem
vals = [0,1,2,3,7]
t=time.time(); bad=[]; nvec=0; nexec=0
for n in (1,2,3,4,5):
    for vec in itertools.product(vals, repeat=n):
        tot = sum(vec)
        if tot == 0: continue
        nvec += 1
        w = Walker([WalkerItem(i, float(r)) for i, r in enumerate(vec)])
        assert w.total_rate == tot
        rows = w._table
        # exact probability from the table + decision rule evaluated through the real sample_cell on a grid that avoids breakpoints
        # mean = tot/n ; uniform(0,mean) = mean*u ; breakpoints at rate/mean = rate*n/tot -> grid (j+0.5)/(tot*M)... choose G = 2*tot*n? rate*n/tot multiples of 1/tot -> grid (j+0.5)/(tot) avoids them
        G = tot
        counts = {}
        for row in rows:
            random.choice = lambda seq, row=row: row
            for j in range(G):
                u = (j+0.5)/G
                random.uniform = lambda a, b, u=u: a + (b-a)*u
                k = w.sample_cell(); nexec += 1
                counts[k] = counts.get(k, 0) + 1
        for i, r in enumerate(vec):
            # P(i) = counts/(len(rows)*G) must equal r/tot
            if Fraction(counts.get(i,0), len(rows)*G) != Fraction(r, tot): bad.append((vec, i, counts.get(i,0), len(rows), G))
print("vectors", nvec, "executions", nexec, "time %.1f" % (time.time()-t), "bad", len(bad), bad[:5])
