import sys, pickle
sys.dont_write_bytecode = True
sys.path.insert(0, '/repo')
from jellyfysh.scheduler.heap_scheduler.heap_scheduler import HeapScheduler, lib
from jellyfysh.scheduler.list_scheduler import ListScheduler
from jellyfysh.base.time import Time, inf
from jellyfysh.base.exceptions import SchedulerError
class H:
    def __init__(s, n): s.n=n
    def __repr__(s): return "H%d"%s.n
hs = [H(i) for i in range(3)]
s = HeapScheduler()
s.push_event(Time(1.0,0.5), hs[0]); s.push_event(Time(0.0,0.5), hs[1]); s.trash_event(hs[1]); s.push_event(Time(2.0,0.25), hs[1])
b = pickle.dumps((s, hs))
s2, hs2 = pickle.loads(b)
print("after pickle:", s2.get_succeeding_event(), [ (e.time_quotient, e.time_remainder, e.counter) for e in [lib.entry(s2._heap, i) for i in range(4)]])
# counter overflow
s._minimal_valid_counter[hs[2]] = 2**32 - 2
s.push_event(Time(0.0, 0.1), hs[2]); print(s.get_succeeding_event()); s.trash_event(hs[2])
s.push_event(Time(0.0, 0.2), hs[2]); print(s.get_succeeding_event(), s._minimal_valid_counter[hs[2]]); s.trash_event(hs[2])
print("counter now", s._minimal_valid_counter[hs[2]])
s.push_event(Time(0.0, 0.3), hs[2]); print("after overflow push:", s.get_succeeding_event(), s._minimal_valid_counter[hs[2]])
s.trash_event(hs[2]); print(s.get_succeeding_event())
e = HeapScheduler()
try: e.get_succeeding_event()
except SchedulerError as x: print("empty ok")
e.push_event(inf, hs[0])
try: print(e.get_succeeding_event())
except SchedulerError as x: print("only-inf -> SchedulerError")
l = ListScheduler(); l.push_event(inf, hs[0]); print("list only-inf ->", l.get_succeeding_event())
