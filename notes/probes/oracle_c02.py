import sys, math, random, itertools
sys.dont_write_bytecode = True
sys.path.insert(0, '/repo')
import jellyfysh.setting as setting
from jellyfysh.setting.hypercubic_setting import HypercubicSetting
L = 1.0
HypercubicSetting(beta=1.0, dimension=3, system_length=L); setting.set_number_of_root_nodes(2); setting.set_number_of_nodes_per_root_node(1); setting.set_number_of_node_levels(1)
from jellyfysh.potential.inverse_power_potential import InversePowerPotential
from jellyfysh.potential.lennard_jones_potential import LennardJonesPotential
from jellyfysh.potential.displaced_even_power_potential import DisplacedEvenPowerPotential
from jellyfysh.potential.inverse_power_coulomb_bounding_potential.inverse_power_coulomb_bounding_potential import InversePowerCoulombBoundingPotential

def uphill(Ur, x, rho2, D, crit_r=(), periodic_L=None):
    """cumulative positive increments of U(r(t)) for t in [0,D]; r(t)^2 = rho2 + xx(t)^2, xx = x - t (wrapped if periodic)"""
    bps = {0.0, D}
    if periodic_L is None:
        if 0 < x < D: bps.add(x)
        for rc in crit_r:
            if rc*rc > rho2:
                w = math.sqrt(rc*rc - rho2)
                for t in (x - w, x + w):
                    if 0 < t < D: bps.add(t)
        xx = lambda t: x - t
    else:
        Lp = periodic_L
        # xx(t) = wrap(x - t) into [-L/2, L/2); critical where xx = 0 or xx = -L/2
        k = 0
        t0 = x  # xx=0 at t = x + k L
        n = int(D / Lp) + 2
        for k in range(-1, n+1):
            for t in (x + k*Lp, x + Lp/2 + k*Lp):
                if 0 < t < D: bps.add(t)
        def xx(t):
            v = (x - t + Lp/2) % Lp - Lp/2
            return v
    ts = sorted(bps)
    tot = 0.0
    for a, b in zip(ts, ts[1:]):
        if periodic_L is None:
            ra = math.sqrt(rho2 + xx(a)**2); rb = math.sqrt(rho2 + xx(b)**2)
        else:
            # evaluate at segment interior to avoid wrap ambiguity at endpoints: use |xx| continuity
            xa = abs(xx(a + (b-a)*1e-9)); xb = abs(xx(b - (b-a)*1e-9))
            # better: exact endpoints via distance to nearest zero crossing
            ra = math.sqrt(rho2 + xa*xa); rb = math.sqrt(rho2 + xb*xb)
        inc = Ur(rb) - Ur(ra)
        if inc > 0: tot += inc
    return tot

random.seed(4)
def relerr(a, b): return abs(a-b)/max(abs(a), abs(b), 1e-300)
worst = {}
def record(name, err, case):
    if err > worst.get(name, (0,None))[0]: worst[name] = (err, case)

N = 20000
# inverse power, both signs
for p in (1.0, 2.0, 6.0, 12.0):
    pot = InversePowerPotential(power=p, prefactor=1.3)
    for _ in range(N):
        s = [random.uniform(-0.5,0.5) for _ in range(3)]
        c = random.choice([1.0,-1.0]); d = random.randrange(3)
        E = math.exp(random.uniform(math.log(1e-6), math.log(50)))
        x = s[d]; rho2 = sum(v*v for i,v in enumerate(s) if i!=d)
        if rho2 < 1e-4: continue
        Ur = lambda r: c*1.3/r**p
        vel = [0.0]*3; vel[d] = 1.0
        dd = pot.displacement(vel, list(s), 1.0, c, E)
        # total uphill available
        big = 1e6
        tot = uphill(Ur, x, rho2, big)
        if dd == float('inf'):
            if not tot <= E*(1+1e-9): record("invpow-inf-wrong", 1.0, (p,s,c,d,E,tot))
        else:
            u = uphill(Ur, x, rho2, dd)
            cond = abs(E - tot)/max(E, tot)
            if cond < 1e-6: continue
            record("invpow p=%g c=%g" % (p,c), relerr(u, E), (s,d,E,dd,u))
# LJ, harmonic
for name, pot, Ur, req in [("LJ", LennardJonesPotential(prefactor=0.62, characteristic_length=0.3), lambda r: 0.62*((0.3/r)**12 - (0.3/r)**6), 0.3*2**(1/6)),
                      ("harm", DisplacedEvenPowerPotential(equilibrium_separation=0.1, power=2, prefactor=500.0), lambda r: 500.0*(r-0.1)**2, 0.1),
                      ("quart", DisplacedEvenPowerPotential(equilibrium_separation=0.15, power=4, prefactor=3000.0), lambda r: 3000.0*(r-0.15)**4, 0.15)]:
    for _ in range(N):
        sc = random.choice([0.2, 0.5, 1.0])
        s = [random.uniform(-0.5,0.5)*sc for _ in range(3)]
        d = random.randrange(3)
        E = math.exp(random.uniform(math.log(1e-6), math.log(50)))
        x = s[d]; rho2 = sum(v*v for i,v in enumerate(s) if i!=d)
        if rho2 + x*x < (0.1 if name=="LJ" else 1e-4)**2 * (4 if name=="LJ" else 1): continue
        vel = [0.0]*3; vel[d] = 1.0
        dd = pot.displacement(vel, list(s), E)
        tot = uphill(Ur, x, rho2, 1e6, crit_r=(req,))
        if dd == float('inf'):
            if not tot <= E*(1+1e-9): record(name+"-inf-wrong", 1.0, (s,d,E,tot))
        else:
            u = uphill(Ur, x, rho2, dd, crit_r=(req,))
            if abs(E - tot)/max(E, tot) < 1e-6: continue
            record(name, relerr(u, E), (s,d,E,dd,u))
# periodic C bound
pot = InversePowerCoulombBoundingPotential()
for _ in range(N):
    s = [random.uniform(-0.5,0.5) for _ in range(3)]
    c = random.choice([1.0,-1.0]); d = random.randrange(3)
    E = math.exp(random.uniform(math.log(1e-6), math.log(200)))
    x = s[d]; rho2 = sum(v*v for i,v in enumerate(s) if i!=d)
    if rho2 < 1e-4: continue
    Ur = lambda r: c*1.5837/r
    vel = [0.0]*3; vel[d] = 1.0
    dd = pot.displacement(vel, list(s), 1.0, c, E)
    u = uphill(Ur, x, rho2, dd, periodic_L=L)
    record("Cbound c=%g" % c, relerr(u, E), (s,d,E,dd,u))
for k,v in sorted(worst.items()): print(k, "%.3e" % v[0], v[1])
