import sys, random, math
sys.dont_write_bytecode = True
sys.path.insert(0, '/repo')
import jellyfysh.setting as setting
from jellyfysh.setting.hypercubic_setting import HypercubicSetting
HypercubicSetting(beta=1.0, dimension=3, system_length=1.0)
from jellyfysh.potential.inverse_power_potential import InversePowerPotential
from jellyfysh.potential.lennard_jones_potential import LennardJonesPotential
from jellyfysh.potential.displaced_even_power_potential import DisplacedEvenPowerPotential
from jellyfysh.base import vectors
random.seed(0)
fails = {}
tot = 0
for power in [1.0, 2.0, 6.0, 12.0]:
    pot = InversePowerPotential(power=power, prefactor=1.0)
    for trial in range(20000):
        s = [random.uniform(0.001, 0.5), random.uniform(-0.5, 0.5), random.uniform(-0.5,0.5)]
        for c in (1.0, -1.0):
            cur = pot.potential(c, s); mx = pot.potential(c, [0.0, s[1], s[2]])
            for pc in ([math.nextafter(mx-cur, 0.0), (mx-cur)*(1-1e-15), (mx-cur)*0.5, 5e-324, 1e-300] if c>0 else [math.nextafter(-mx, 0.0) if False else abs(mx)*(1-1e-16), 5e-324, 1e-300, abs(mx)*0.5]):
                if pc <= 0: continue
                tot += 1
                try:
                    d = pot.displacement([1.0,0.0,0.0], list(s), 1.0, c, pc)
                    if d != d or d < -1e-12: fails.setdefault(("neg/nan", power, c), (s, pc, d))
                except Exception as e:
                    fails.setdefault((type(e).__name__, power, c), (s, pc, str(e)))
print(tot, len(fails))
for k,v in fails.items(): print(k, v)
# Mexican hats
for pot, name in [(LennardJonesPotential(prefactor=0.6, characteristic_length=0.3), "LJ"), (DisplacedEvenPowerPotential(equilibrium_separation=0.1, power=2, prefactor=500.0), "harm"), (DisplacedEvenPowerPotential(equilibrium_separation=0.1, power=4, prefactor=500.0), "quart")]:
    f2 = {}; tot=0
    for trial in range(40000):
        s = [random.uniform(-0.5, 0.5), random.uniform(-0.3, 0.3), random.uniform(-0.3,0.3)]
        if name!="LJ" and random.random()<0.5: s = [x*0.3 for x in s]
        for pc in [5e-324, 1e-300, 1e-12, 0.3, 2.0, 50.0]:
            tot+=1
            try:
                d = pot.displacement([1.0,0,0], list(s), pc)
                if d != d or d < -1e-12: f2.setdefault("neg/nan", (s, pc, d))
            except Exception as e:
                f2.setdefault(type(e).__name__+":"+str(e)[:40], (s, pc))
    print(name, tot, f2)
