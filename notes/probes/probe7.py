import sys, math, itertools, time
sys.dont_write_bytecode = True
sys.path.insert(0, '/repo')
import jellyfysh.setting as setting
from jellyfysh.setting.hypercuboid_setting import HypercuboidSetting
from jellyfysh.activator.internal_state.cell_occupancy.cells.cuboid_periodic_cells import CuboidPeriodicCells
bad = {}
def B(k, v): bad.setdefault(k, []).append(v)
t=time.time(); ngrid=0
for Ls, ns, layers in [((1.0,1.0),(3,5),1), ((1.0,2.5),(4,3),1), ((12.836,12.836),(13,13),1), ((10.0,10.0,10.0),(6,6,6),2), ((1.0,1.0,1.0),(3,5,7),1), ((0.7,3.0),(7,2),0), ((7.3,0.1),(5,6),2), ((100.0,),(16,),1), ((2.0,2.0),(1,4),1)]:
    setting.reset()
    HypercuboidSetting(system_lengths=list(Ls), beta=1.0, dimension=len(Ls)); setting.set_number_of_root_nodes(2); setting.set_number_of_nodes_per_root_node(1); setting.set_number_of_node_levels(1)
    cells = CuboidPeriodicCells(list(ns), neighbor_layers=layers); ngrid+=1
    cs = list(cells.yield_cells()); dim=len(Ls)
    byid = {c.identifier: c for c in cs}
    assert len(byid) == math.prod(ns)
    for c in cs:
        # midpoint maps to itself
        mid = [(c.cell_min[d]+c.cell_max[d])/2 for d in range(dim)]
        if cells.position_to_cell(mid) is not c: B("mid", (Ls,ns,c.identifier))
        for d in range(dim):
            for pos in (True, False):
                nb = cells.neighbor_cell(c, d, pos)
                exp = list(c.identifier); exp[d] = (exp[d] + (1 if pos else -1)) % ns[d]
                if nb.identifier != tuple(exp): B("neighbor", (Ls,ns,c.identifier,d,pos,nb.identifier))
        near = cells.nearby_cells(c)
        expn = set(tuple((c.identifier[d]+o[d]) % ns[d] for d in range(dim)) for o in itertools.product(range(-layers,layers+1), repeat=dim))
        if set(x.identifier for x in near) != expn: B("nearby", (Ls,ns,c.identifier))
        for c2 in cs:
            rel = cells.relative_cell(c2, c)
            exprel = tuple((c2.identifier[d]-c.identifier[d]) % ns[d] for d in range(dim))
            if rel.identifier != exprel: B("relative", (Ls,ns,c.identifier,c2.identifier,rel.identifier,exprel))
            tr = cells.translate(c, rel)
            if tr is not c2: B("translate", (Ls,ns,c.identifier,c2.identifier,tr.identifier))
            if (c2 in near) != (c in cells.nearby_cells(c2)): B("nearby-sym", (c.identifier,c2.identifier))
print("grids", ngrid, "time %.1f"%(time.time()-t), {k: (len(v), v[:3]) for k,v in bad.items()})
