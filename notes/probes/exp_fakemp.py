import sys, os, time, random, io, contextlib, hashlib
sys.dont_write_bytecode = True
sys.path.insert(0, '/repo'); sys.path.insert(0, '/tmp/exp')
from configparser import ConfigParser
from pkg_resources import resource_filename
from jellyfysh.base import factory
from jellyfysh.base.strings import to_camel_case
from jellyfysh.base.exceptions import EndOfRun
import jellyfysh.setting as setting
import fakemp

ini, mode, endtime, cores, sseed = sys.argv[1:6]
config = ConfigParser(); assert config.read(ini if os.path.isabs(ini) else resource_filename("jellyfysh", ini))
for sec in config.sections():
    if sec.endswith("OutputHandler") and config.has_option(sec, "filename"):
        config.set(sec, "filename", "/tmp/exp/outf_%s_%s.dat" % (sec, mode))
config.set("FactorTypeMaps","filename", resource_filename("jellyfysh", config.get("FactorTypeMaps","filename")))
config.set("FinalTimeEndOfRunEventHandler", "end_of_run_time", endtime)
if mode != "sp":
    config.set("Run", "mediator", "multi_process_mediator")
    config.add_section("MultiProcessMediator")
    for k, v in config.items("SingleProcessMediator"): config.set("MultiProcessMediator", k, v)
    config.set("MultiProcessMediator", "number_cores", cores)
    import jellyfysh.mediator.multi_process_mediator.multi_process_mediator as mpm
    import jellyfysh.mediator.multi_process_mediator.or_event as ore
    if mode == "real":
        _orig_rip = mpm.run_in_process
        _orig_start = mpm.MultiProcessMediator._start_processes
        G = {}
        def _start(self):
            G["S0"] = random.getstate()
            return _orig_start(self)
        def _rip(self, *a):
            random.setstate(G["S0"])
            return _orig_rip(self, *a)
        mpm.run_in_process = _rip; mpm.MultiProcessMediator._start_processes = _start
    if mode == "fake":
        srng = random.Random(int(sseed))
        def chooser(enabled, cur, desc):
            if sseed == "0":
                return cur if cur in enabled else enabled[0]
            return srng.choice(enabled)
        fakemp.SCHED = fakemp.Sched(chooser)
        mpm.multiprocessing = fakemp.FakeMP; mpm.connection = fakemp.FakeConn; ore.Event = fakemp.Event
random.seed(5)
if mode == "fake": fakemp.SCHED.register_main()
factory.build_from_config(config, to_camel_case(config.get("Run", "setting")), "jellyfysh.setting")
med = factory.build_from_config(config, to_camel_case(config.get("Run", "mediator")), "jellyfysh.mediator")
log = []
sh = med._state_handler
orig = sh.insert_into_global_state
depth=[0]
def ins(out_state):
    if depth[0]==0:
        log.append([(c.value.identifier, tuple(c.value.position), None if c.value.velocity is None else tuple(c.value.velocity), repr(c.value.time_stamp)) for c in out_state])
    depth[0]+=1
    try: return orig(out_state)
    finally: depth[0]-=1
sh.insert_into_global_state = ins
if mode == "sp":
    # per-handler random streams, all starting at the state after construction (fork semantics)
    S0 = random.getstate()
    streams = {}
    for h in med._event_handlers_list:
        for name in ("send_event_time", "send_out_state"):
            f = getattr(h, name)
            def mk(f, h):
                def w(*a, **k):
                    outer = random.getstate()
                    random.setstate(streams.get(h, S0))
                    try: return f(*a, **k)
                    finally:
                        streams[h] = random.getstate(); random.setstate(outer)
                return w
            setattr(h, name, mk(f, h))
t=time.time()
try:
    with contextlib.redirect_stdout(io.StringIO()): med.run()
except EndOfRun:
    pass
med.post_run()
extra = ""
if mode == "fake":
    extra = "points %d threads %d" % (fakemp.SCHED.n_points, len(fakemp.SCHED.threads)); fakemp.SCHED.kill_all()
print(mode, "commits", len(log), "time %.3f" % (time.time()-t), hashlib.sha1(repr(log).encode()).hexdigest()[:12], extra)
if mode == "fake":
    tr = fakemp.SCHED.trace
    import collections
    c = collections.Counter(len(e) for (_,_,e,_) in tr)
    alts = sum(len(e)-1 for (_,_,e,_) in tr)
    print("sched points", len(tr), "enabled histogram", dict(c), "P=1 alternatives", alts, "per commit", alts/len(log))
    ops = collections.Counter(d.split(':')[0] for (_,d,_,_) in tr)
    print(dict(ops))
