import math, itertools
bad = []
cnt = 0
for n in range(1, 200):
    for L in [1.0, 0.1, 0.3, 0.7, 1.1, 2.0, 3.0, 5.0, 7.3, 10.0, 12.5, 0.123456789, 33.3, 100.0, 1e-3, 1e3, 6.0, 4.0, 1.6, 0.9]:
        side = L / n
        x = math.nextafter(L, 0.0)
        cnt += 1
        if int(x / side) >= n:
            bad.append((L, n, x, x/side))
print(cnt, len(bad), bad[:20])
