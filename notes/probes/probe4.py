import sys, math, time
sys.dont_write_bytecode = True
sys.path.insert(0, '/repo')
import jellyfysh.setting as setting
from jellyfysh.setting.hypercubic_setting import HypercubicSetting
HypercubicSetting(beta=1.0, dimension=3, system_length=1.0); setting.set_number_of_root_nodes(2); setting.set_number_of_nodes_per_root_node(1); setting.set_number_of_node_levels(1)
from jellyfysh.potential.merged_image_coulomb_potential.merged_image_coulomb_potential import MergedImageCoulombPotential
from jellyfysh.potential.inverse_power_coulomb_bounding_potential.inverse_power_coulomb_bounding_potential import InversePowerCoulombBoundingPotential
m = MergedImageCoulombPotential(); b = InversePowerCoulombBoundingPotential()
t=time.time()
N=40
best = (0,None); n=0; viol=0; minpos=(9,None)
for i in range(N+1):
    for j in range(N+1):
        for k in range(N+1):
            s = [-0.5 + i/N, -0.5 + j/N, -0.5+k/N]
            if s == [0.0,0.0,0.0]: continue
            for c in (1.0,-1.0):
                qm = m.derivative([1.0,0,0], s, 1.0, c); qb = b.derivative([1.0,0,0], s, 1.0, c)
                n+=1
                if qm > 0:
                    r = qm/qb if qb>0 else float('inf')
                    if r > best[0]: best=(r,(s,c))
                    if r>1: viol+=1
print("evals", n, "time %.1f"%(time.time()-t), "max ratio", best, "violations", viol)
# independent Ewald energy check
def ewald_energy(s, L=1.0, alpha=5.0, rc=3, kc=10):
    a = alpha/L; e=0.0
    for i in range(-rc,rc+1):
        for j in range(-rc,rc+1):
            for k in range(-rc,rc+1):
                r = math.sqrt((s[0]+i*L)**2+(s[1]+j*L)**2+(s[2]+k*L)**2)
                e += math.erfc(a*r)/r
    for i in range(-kc,kc+1):
        for j in range(-kc,kc+1):
            for k in range(-kc,kc+1):
                k2 = i*i+j*j+k*k
                if k2==0 or k2>kc*kc: continue
                kk = (2*math.pi/L)**2*k2
                e += 4*math.pi/L**3/kk*math.exp(-kk/(4*a*a))*math.cos(2*math.pi/L*(i*s[0]+j*s[1]+k*s[2]))
    e -= math.pi/(a*a*L**3)
    return e
for s in [[0.2,0.1,-0.3],[0.45,0.45,0.45],[0.01,0.02,0.0],[-0.49,0.3,0.1]]:
    h=1e-5
    t=time.time()
    num = -(ewald_energy([s[0]+h,s[1],s[2]])-ewald_energy([s[0]-h,s[1],s[2]]))/(2*h)   # dU/dx_active = -dU/ds_x
    print(s, "code", m.derivative([1.0,0,0], s, 1.0, 1.0), "indep", num, "t %.3f"%(time.time()-t))
print("---- violations detail")
rows=[]
N=40
for i in range(N+1):
    for j in range(N+1):
        for k in range(N+1):
            s = [-0.5 + i/N, -0.5 + j/N, -0.5+k/N]
            if s == [0.0,0.0,0.0]: continue
            for c in (1.0,-1.0):
                qm = m.derivative([1.0,0,0], s, 1.0, c); qb = b.derivative([1.0,0,0], s, 1.0, c)
                if qm > 0 and qm > qb: rows.append((qm-qb, qm, qb, s, c))
rows.sort(reverse=True)
for r in rows[:12]: print(r)
import collections
print(collections.Counter(r[3][0] for r in rows).most_common(10))
print("max qm among violations", max(r[1] for r in rows))
