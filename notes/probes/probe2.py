import sys, random, math
sys.dont_write_bytecode = True
sys.path.insert(0, '/repo')
import jellyfysh.setting as setting
from jellyfysh.setting.hypercubic_setting import HypercubicSetting
HypercubicSetting(beta=1.0, dimension=3, system_length=1.0)
pb = setting.periodic_boundaries
print("C15 correct_position_entry(-1e-17) =", repr(pb.correct_position_entry(-1e-17, 0)), " (-0.0)->", repr(pb.correct_position_entry(-0.0, 0)), " L->", repr(pb.correct_position_entry(1.0,0)))
x = pb.correct_position_entry(-1e-17, 0); print("  idempotent?", pb.correct_position_entry(x,0) == x)
print("C15 sep(-0.5-1e-17)=", pb.correct_separation_entry(-0.5-1e-17,0), pb.correct_separation_entry(0.5,0), pb.correct_separation_entry(-0.5,0))
from jellyfysh.activator.internal_state.cell_occupancy.cells.cuboid_periodic_cells import CuboidPeriodicCells
setting.set_number_of_root_nodes(2); setting.set_number_of_nodes_per_root_node(1); setting.set_number_of_node_levels(1)
cells = CuboidPeriodicCells([3,5,7])
top = 0.9999999999999999
try:
    c = cells.position_to_cell([top, 0.1, 0.1]); print("C16 cell of top x:", c.identifier, c.cell_min, c.cell_max)
except Exception as e: print("C16 exc", repr(e))
try:
    c = cells.position_to_cell([0.1, 0.1, top]); print("C16 cell of top z:", c.identifier)
except Exception as e: print("C16 exc z", repr(e))
cs = list(cells.yield_cells())
print("top cell x max:", max(c.cell_max[0] for c in cs), " y:", max(c.cell_max[1] for c in cs), " z:", max(c.cell_max[2] for c in cs))
# gaps
for d in range(3):
    ext = sorted(set((c.cell_min[d], c.cell_max[d]) for c in cs))
    gaps = [(a[1], b[0]) for a,b in zip(ext, ext[1:]) if math.nextafter(a[1], 2.0) != b[0]]
    print(" dim", d, "n", len(ext), "gaps", gaps, "first min", ext[0][0], "last max", ext[-1][1])
# Walker zero-rate
from jellyfysh.event_handler.walker import Walker, WalkerItem
import jellyfysh.event_handler.walker as wm
w = Walker([WalkerItem('a', 0.0), WalkerItem('b', 1.0), WalkerItem('c', 3.0)])
print("table", [[(i.item, i.rate) for i in row] for row in w._table], w.total_rate)
orig_u, orig_c = random.uniform, random.choice
random.uniform = lambda a,b: a
res = set()
for row in w._table:
    random.choice = lambda seq, row=row: row
    res.add(w.sample_cell())
print("C18 with uniform==0.0 selected:", res)
random.uniform, random.choice = orig_u, orig_c
# Lifting with zero
from jellyfysh.lifting.inside_first_lifting import InsideFirstLifting
l = InsideFirstLifting()
random.uniform = lambda a,b: a
l.reset(); l.insert(0.0, 'z', False); l.insert(2.0, 'act', True); l.insert(-2.0, 'n', False)
print("C05 zero-first u=0 ->", l.get_active_identifier())
random.uniform = orig_u
