import sys, itertools, time, collections
sys.dont_write_bytecode = True
sys.path.insert(0, '/repo')
import jellyfysh.setting as setting
from jellyfysh.setting.hypercuboid_setting import HypercuboidSetting
from jellyfysh.base.node import Node
from jellyfysh.base.particle import Particle
from jellyfysh.base.time import Time
from jellyfysh.activator.internal_state.cell_occupancy.cells.cuboid_periodic_cells import CuboidPeriodicCells
from jellyfysh.activator.internal_state.single_active_cell_occupancy import SingleActiveCellOccupancy
from jellyfysh.activator.tagger.cell_bounding_potential_tagger import CellBoundingPotentialTagger
from jellyfysh.activator.tagger.excluded_cells_tagger import ExcludedCellsTagger
from jellyfysh.activator.tagger.surplus_cells_tagger import SurplusCellsTagger
from jellyfysh.activator.tagger.cell_veto_tagger import CellVetoTagger
from jellyfysh.state_handler.tree_state_handler import TreeStateHandler
from jellyfysh.state_handler.physical_state.tree_physical_state import TreePhysicalState
from jellyfysh.state_handler.lifting_state.tree_lifting_state import TreeLiftingState
from jellyfysh.event_handler.two_leaf_unit_event_handler import TwoLeafUnitEventHandler
from jellyfysh.event_handler.leaf_unit_cell_veto_event_handler import LeafUnitCellVetoEventHandler
from jellyfysh.potential.inverse_power_potential import InversePowerPotential
from jellyfysh.estimator.estimator import Estimator

class StubEstimator(Estimator):
    def __init__(self, potential): super().__init__(potential=potential)
    def derivative_bound(self, lower_corner, upper_corner, direction, calculate_lower_bound=False):
        return [1.0, -1.0] if calculate_lower_bound else [1.0]
    def charge_correction_factor(self, a, b=None): return 1.0

def build(Ls, ns, layers, cap, positions):
    setting.reset()
    HypercuboidSetting(system_lengths=list(Ls), beta=1.0, dimension=len(Ls))
    setting.set_number_of_root_nodes(len(positions)); setting.set_number_of_nodes_per_root_node(1); setting.set_number_of_node_levels(1)
    cells = CuboidPeriodicCells(list(ns), neighbor_layers=layers)
    occ = SingleActiveCellOccupancy(cells, cell_level=1, maximum_number_occupants=cap)
    # the tagger looks up its internal state by the snake-cased class name
    roots = [Node(Particle(list(p), {"c": 1.0})) for p in positions]
    sh = TreeStateHandler(TreePhysicalState(), TreeLiftingState()); sh.initialize(roots)
    occ.initialize(sh.extract_global_state())
    pot = InversePowerPotential(power=1.0, prefactor=1.0)
    pair = TwoLeafUnitEventHandler(potential=pot, charge="c")
    veto = LeafUnitCellVetoEventHandler(estimator=StubEstimator(pot), charge="c")
    taggers = {
        "excluded": ExcludedCellsTagger([], [], pair, number_event_handlers=1, internal_state_label="single_active_cell_occupancy"),
        "surplus": SurplusCellsTagger([], [], pair, number_event_handlers=1, internal_state_label="single_active_cell_occupancy"),
        "veto": CellVetoTagger([], [], veto, internal_state_label="single_active_cell_occupancy"),
    }
    import contextlib, io
    with contextlib.redirect_stdout(io.StringIO()):
        for t in taggers.values():
            t.initialize_with_internal_states([occ]); t.initialize()
    return cells, occ, sh, taggers

def check(Ls, ns, layers, cap, positions):
    cells, occ, sh, taggers = build(Ls, ns, layers, cap, positions)
    n = len(positions); res = 0
    for a in range(n):
        # make unit a active
        b = sh.extract_from_global_state((a,)); b.value.velocity = [1.0] + [0.0]*(len(Ls)-1); b.value.time_stamp = Time(0.0, 0.0)
        sh.insert_into_global_state([b])
        active = sh.extract_active_global_state()
        occ.update(active)
        covered = collections.Counter()
        for ids in taggers["excluded"].yield_identifiers_send_event_time(active):
            assert ids[0] == (a,); covered[ids[1]] += 1
        for ids in taggers["surplus"].yield_identifiers_send_event_time(active):
            assert ids[0] == (a,); covered[ids[1]] += 1
        vt = list(taggers["veto"].yield_identifiers_send_event_time(active))
        assert vt == [((a,),)], vt
        (acell, aid), = list(occ.yield_active_cells())
        for cell in cells.yield_cells():
            if cell not in cells.nearby_cells(acell):
                for ident in occ[cell]: covered[ident] += 1     # what Mediator.get_arguments_cell_veto_event_handler would fetch
        expect = collections.Counter((j,) for j in range(n) if j != a)
        assert covered == expect, (Ls, ns, layers, cap, positions, a, covered, expect)
        res += 1
        # deactivate
        b = sh.extract_from_global_state((a,)); b.value.velocity = None; b.value.time_stamp = None
        sh.insert_into_global_state([b])
    return res

t=time.time(); n=0
Ls, ns = (1.0, 1.0), (4, 5)
crit = [0.0, 0.125, 0.25, 0.49999, 0.5, 0.74, 0.9999999999999998]
pts = [(x, y) for x in crit[:5] for y in (0.1, 0.2, 0.6)]
for layers in (0, 1):
    for cap in (1, 2, -1):
        for k in (2, 3):
            for pos in itertools.combinations_with_replacement(pts, k):
                n += check(Ls, ns, layers, cap, list(pos))
print("checked (config, active) pairs:", n, "time %.1f" % (time.time()-t))
