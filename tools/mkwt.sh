#!/bin/sh
# tools/mkwt.sh <dir>: scratch git worktree of /repo HEAD at <dir> with freshly built C extensions
set -e
d="$1"
git -C /repo worktree add -q --detach "$d" HEAD
cd "$d"
for f in jellyfysh/scheduler/heap_scheduler/heap_build.py \
         jellyfysh/potential/merged_image_coulomb_potential/merged_image_coulomb_potential_build.py \
         jellyfysh/potential/inverse_power_coulomb_bounding_potential/inverse_power_coulomb_bounding_potential_build.py; do
  /venv/bin/python "$f" >/dev/null 2>&1 || { echo "build failed: $f"; exit 1; }
done
mkdir -p _seed
echo "worktree ready: $d"
