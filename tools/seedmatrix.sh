#!/bin/sh
# run every seed against the checks expected to see it (own property first); results accumulate in seeded/*/meta.json
cd /verif
run() { s=$1; shift; python3 tools/seedrun.py $s "$@" 2>&1 | grep -E "exit|does not apply|refusing"; }
run C01-a C01 C18
run C01-b C01
run C02-a C02
run C02-b C02
run C03-a C03 C19
run C03-b C03
run C04-a C04 C03
run C04-b C04
run C05-a C05
run C05-b C05
run C06-a C06
run C06-b C06
run C07-a C07 C11
run C07-b C07 C06 C19
run C08-a C08 C06 C19
run C08-b C08 C09
run C09-a C09
run C09-b C09 C11 C10
run C10-a C10 C11
run C10-b C10
run C11-a C11
run C11-b C11 C09
run C12-a C12
run C12-b C12
run C13-a C13
run C13-b C13
run C14-a C14
run C14-b C14 C06
run C15-a C15
run C15-b C15
run C16-a C16
run C16-b C16
run C17-a C17
run C17-b C17
run C18-a C18
run C18-b C18
run C19-a C19
run C19-b C19
run C20-a C20
run C20-b C20
echo MATRIX-DONE
