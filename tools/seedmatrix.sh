#!/bin/sh
# run every seed against its own property's check (plus the other checks known to see it); results accumulate in
# seeded/*/meta.json.  Never run other checks against /repo while this is running: the seeds are applied in place.
cd /verif
run() { s=$1; shift; python3 tools/seedrun.py $s "$@" 2>&1 | grep -E "exit|does not apply|refusing"; }
for p in 01 02 03 04 05 06 07 08 09 10 11 12 13 14 15 16 17 18 19 20; do
  for v in a b c d; do
    [ -d seeded/C$p-$v ] && run C$p-$v C$p
  done
done
# cross detections recorded in MUTATIONS.md
run C01-a C18
run C03-a C19
run C04-a C03
run C07-b C06 C19
run C08-a C06 C19
run C08-b C09
run C09-b C11 C10
run C10-a C11
run C11-b C09
run C14-b C06
run C14-d C06
run C17-c C06 C19
run C19-d C06
run C11-d C09
echo MATRIX-DONE
