import ast, sys
for path in sys.argv[1:]:
    src = open(path).read()
    tree = ast.parse(src)
    lines = src.split('\n')
    kill = set()
    for node in ast.walk(tree):
        if isinstance(node, (ast.FunctionDef, ast.ClassDef, ast.Module, ast.AsyncFunctionDef)):
            b = node.body
            if b and isinstance(b[0], ast.Expr) and isinstance(getattr(b[0], 'value', None), ast.Constant) and isinstance(b[0].value.value, str):
                for i in range(b[0].lineno, b[0].end_lineno + 1):
                    kill.add(i)
    print("#" * 20, path)
    started = False
    for i, l in enumerate(lines, 1):
        if i in kill: continue
        if not started:
            if l.startswith('#') or not l.strip(): continue
            started = True
        if not l.strip(): continue
        print(f"{i:4d} {l}")
