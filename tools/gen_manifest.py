#!/usr/bin/env python3
"""Regenerate MANIFEST.json from the table below (single source of truth for per-check metadata)."""
import json
import os

HERE = os.path.dirname(os.path.dirname(os.path.abspath(__file__)))
ALL = ["C%02d" % i for i in range(1, 21)]

# id -> (engine, category, technique, level text, level note, design ref)
CHECKS = {}


def chk(pid, engine, category, technique, text, note, ref):
    CHECKS[pid] = dict(engine=engine, category=category, technique=technique, text=text, note=note, ref=ref)


chk("C14", "latx+seqx", "exploration",
    "exhaustive enumeration of a critical-value float lattice, of all addition histories up to depth 3/4 and of all "
    "heap-ordered layouts (6-7 distinct times; 15 entries over 3 time levels) across a counter overflow, each executed "
    "on the real Time class / schedulers and compared with an exact rational reference model",
    "Every (quotient, remainder, displacement) triple, every ordered pair of times and every bounded addition "
    "history of a lattice built from the branch/rounding boundaries of binary64 is run on the real class and "
    "compared with fractions.Fraction arithmetic; the space is finite and enumerated completely.",
    "IEEE-754 semantics of this CPU/CPython; inputs between lattice points are not covered.", "DESIGN.md §5/C14")

chk("C15", "latx", "exploration",
    "exhaustive enumeration of a critical-value lattice (box lengths x positions x ordered position pairs x "
    "dimensions x both implementations) on the real periodic-boundary classes against exact rational modular "
    "arithmetic",
    "All lattice points are evaluated on the real HypercubicPeriodicBoundaries / HypercuboidPeriodicBoundaries and "
    "compared with Fraction arithmetic (range, congruence, idempotence, |s| <= L/2, cubic == cuboid bit for bit).",
    "IEEE-754 semantics of this CPU/CPython; inputs between lattice points are not covered.", "DESIGN.md §5/C15")

chk("C16", "latx", "exploration",
    "exhaustive enumeration of cell grids: every float within 4 ulp of every cell/box boundary, every cell and every "
    "ordered pair of cells of each grid, on the real cell classes against index arithmetic modulo n",
    "For each grid of a (L, n) lattice and of a list of 2-D/3-D grids with unequal counts the real CuboidCells / "
    "CuboidPeriodicCells object is built and every boundary float, cell and cell pair is checked (partition, abutting "
    "extents, monotone map, neighbour/nearby/relative/translate == torus index arithmetic).",
    "Cell boundaries may lie within 4 ulp(L) of k L/n; grids outside the lattice are not covered.",
    "DESIGN.md §5/C16")

chk("C05", "latx", "exploration",
    "exhaustive enumeration of all integer derivative tables (values -3..3, sizes 2..4/6, all orders, all active "
    "units) x scripted uniform draws on an exact midpoint grid and at the end points, on the three real lifting "
    "classes; flow balance checked in exact integers",
    "The uniform draws are owned through the random seam, so the selection as a function of the draw is enumerated "
    "rather than sampled; balance sum_a q_a P(k|a) = |q_k| holds as an identity of integer counts. Float tables via "
    "threshold bisection on the real code.",
    "Tables outside the alphabet are not covered; random.uniform is the only draw (proved per execution).",
    "DESIGN.md §5/C05")

chk("C18", "latx", "exploration",
    "exhaustive enumeration of rate vectors x both random draws (table row, exact grid of the second draw, end "
    "points) on the real Walker, and of (cell grid, active cell, direction, charge sign, walker answer) on the real "
    "cell-veto handlers with an injective stub estimator; plus deviation-bounded exploration of the real mediator on "
    "every configuration with a cell-veto handler (offset has a bound at proposal, active cell unchanged at commit)",
    "Probabilities are exact integer counts; target cell and confirmation bound are compared with index arithmetic "
    "modulo n and the bound the stub estimator produced for that offset (threshold located by bisection).",
    "Estimator replaced by a stub (the handlers only consume its numbers); grids and vectors outside the lattice are "
    "not covered.", "DESIGN.md §5/C18")

chk("C06", "seqx", "model_checking",
    "explicit-state breadth-first search over all protocol-respecting push/trash/get/pickle histories (3-4 handlers, "
    "tie-rich and 2^40/2^52 time alphabets, empty / pre-filled across the realloc boundary / counters just below 2^32 "
    "start states) executed on the real HeapScheduler and ListScheduler and compared with a reference dict at every "
    "step; every heap-ordered array layout (6-8 distinct times, 15 entries over 3 levels) with stale entries across "
    "delete_events; plus an exhaustive C driver on heap.c under ASan+UBSan",
    "Every transition of the bounded state space is executed on freshly rebuilt real objects (the model is the "
    "reference dict, so every explored trace is an implementation trace); states are merged only by a canonical form "
    "containing every field the future depends on; a drain oracle runs in every state.",
    "Bounded depth (6-9 operations beyond the start states), 3-4 handlers; deletion counters near 2^32 are preset "
    "through the scheduler's counter dictionary; realloc failure is not driven.", "DESIGN.md §5/C06")

chk("C13", "seqx", "model_checking",
    "exhaustive enumeration of all extract / mutate / insert / extract-active sequences up to depth 4/5 on tree "
    "shapes {2x0, 2x2, 1x3, 2x1, 3x2, 3x0} from three start states, each executed on a fresh real TreeStateHandler "
    "and compared with a dict reference model (non-interference re-read of the global state and of every live "
    "branch after every step)",
    "Sequences are explored as a tree without state merging because aliasing defects make value-equal states behave "
    "differently; every explored sequence is an implementation trace.",
    "Depth <= 5, at most two simultaneously extracted branches, 2-D positions; mutation of already inserted branches "
    "is outside the alphabet (the code aliases them by design).", "DESIGN.md §5/C13")

ENVA_NOTE = ("Bounded: <= 1 (quick) / 2 (thorough) simultaneous deviations from a baseline answer function, horizons of "
             "25-60 legs, <= 9 root nodes; answers from a finite alphabet; hard_disk_dipoles*.ini use a harness start "
             "configuration; monitors read activator / occupancy internals to formulate the oracle.")
ENVA_TECH = ("stateless deviation-bounded exploration of the real mediator loop: every random draw is answered by a "
             "scripted seam, all executions with <= k non-baseline answers (k=1 around 2-4 baselines, k=2 thorough) are "
             "enumerated for 17 shipped configurations, 14+ scaled/crowded variants and 6 harness templates, with the "
             "property's invariant monitor evaluated on every leg and commit")

chk("C07", "envx", "exploration", ENVA_TECH,
    "Every explored execution is a run of the unmodified mediator/activator/scheduler/handlers; the C07 monitor "
    "compares the global state before and after every commit (continuity mod box, single chain, speed, box, identity) "
    "and event-time monotonicity from the candidate times pushed to the scheduler.", ENVA_NOTE, "DESIGN.md §5/C07")
chk("C08", "envx", "exploration", ENVA_TECH,
    "For every pending interaction / cell-veto candidate the global values of its in-state units at creation are "
    "stored and compared at every leg (eager form) and at commit (velocity bit-equal, same straight line); the time "
    "under which the scheduler delivers a handler must be its live candidate time (also with all lazy-deletion "
    "counters preset to 2^32 - 4, and across a dump/resume at leg k).",
    ENVA_NOTE, "DESIGN.md §5/C08")
chk("C09", "envx", "exploration", ENVA_TECH,
    "At every leg the pending multiset per tagger (built only from the activator's return values) is compared with "
    "what the real tagger generates from scratch for the current active state; scheduler live set == running "
    "handlers; TagActivatorError or any other exception is a violation.", ENVA_NOTE, "DESIGN.md §5/C09")
chk("C11", "envx", "exploration", ENVA_TECH,
    "At every leg the occupant / surplus / active records of every cell-occupancy system are compared with the true "
    "positions (continuous position of the active unit), the occupant cap, and at every commit the active unit must "
    "be inside its recorded cell unless a cell-boundary event of that system commits.", ENVA_NOTE, "DESIGN.md §5/C11")
chk("C12", "envx", "exploration", ENVA_TECH,
    "At every commit of every composite-object configuration: root velocity == weighted sum of leaf velocities "
    "(absent iff none moves), root position advanced to the event time == weighted nearest-image barycentre.",
    ENVA_NOTE, "DESIGN.md §5/C12")

chk("C17", "envx", "exploration",
    "stateless deviation-bounded exploration of complete runs (to EndOfRun) of 8 configurations x a lattice of "
    "(sampling interval, end time, chain time, first-sample-at-zero) under the scripted random seam; after every "
    "execution sample times are compared with k * interval in exact rationals, every moving unit of the written "
    "state must carry the sample time, sample count and end-of-run time are checked; C07 continuity monitor alongside",
    "All executions with <= 1 deviation around 2-4 baselines (deviations per baseline capped at 120/400) on runs that "
    "really terminate; the sampling / end-of-run / dumping handlers and the mediator are the real ones.",
    "Short runs (<= 100 samples); ties between a sampling time and the end time within rounding accept either count; "
    "output handlers are replaced by a recorder (what is handed to write() is checked, not the files).",
    "DESIGN.md §5/C17")

chk("C19", "crashx", "fault_enumeration",
    "crash/dump-point enumeration: every dump written by seeded reference runs (8-10 configurations x heap/list "
    "scheduler, real DumpingOutputHandler and Mersenne Twister) is restored in a fresh interpreter exactly as "
    "resume.py does and the continuation is compared event by event, bit for bit, with the uninterrupted run; "
    "run-with-dumps == run-without-dumps",
    "All dump points of each reference run are resumed (no sampling of dump points); observation is by class-level "
    "patches so the dump contains no harness object; one configuration has commensurate intervals (exact ties) so "
    "that the scheduler's internal layout matters.",
    "A few seeds per configuration (the enumeration is over dump points); same interpreter and platform for dump and "
    "resume; runs of 100-250 events (quick).", "DESIGN.md §5/C19")

chk("C20", "schedx", "model_checking",
    "systematic schedule exploration (deviation/preemption bounding) of the real MultiProcessMediator on in-process "
    "fakes of multiprocessing under a controlled baton scheduler: 3 configurations x cores {2,3,4} x baseline "
    "policies {lowest-id, highest-id, round-robin at every primitive, starve worker k for every k} x every "
    "single-point deviation, each schedule compared with the single-process run; plus a free-running conformance run "
    "with real OS processes",
    "Every primitive operation (pipe send/recv/poll, connection.wait, Event set/clear/is_set/wait, semaphore, process "
    "exit) is a scheduling point owned by the harness; each schedule is a complete execution of the unmodified "
    "mediator and worker code; oracle: identical commit + sample log, no exception, no deadlock, no live worker after "
    "post_run; evidence lists the mediator stage vectors and paths (pre-computed used / discarded / trashed while "
    "running) reached.",
    "Deviation bound 1 around the baselines (2 in thorough, capped), 4-6 commits per execution; fakes replace the OS "
    "(validated by one free-running real-process run per configuration); Cell hashing pinned to identifiers for "
    "reproducibility.", "DESIGN.md §5/C20")

chk("C10", "latx+seqx", "exploration",
    "exhaustive enumeration of static cell configurations (grids x neighbour layers x occupant caps x unit kinds x "
    "placements on cell-critical positions) and of every sequence of <= 3 changes of the active unit on the real "
    "cells / occupancy / cell taggers, and of generated factor files (all index orders) on the real FactorTypeMaps "
    "and FactorTypeMapInStateTagger; the real cell-veto handlers for every active cell x direction x alias row; and "
    "deviation-bounded exploration of the real mediator on every configuration with a cell system (pending nearby + "
    "surplus + far events cover every other unit once); oracle: exact multiset partition / index sets",
    "The partition oracle is identifier-level and exact; the occupancy is driven through its public update() with "
    "real extracted active states, so incrementally updated (non-initial) occupancy states are covered.",
    "Placements subsampled deterministically in the quick tier (<= 150 per setting); estimators stubbed.",
    "DESIGN.md §5/C10")

chk("C02", "latx", "exploration",
    "exhaustive evaluation of every invertible potential's real displacement() on a lattice built from the branch "
    "boundaries of its case tree (+- 0..5 ulp) x directions x charge signs x parameters x box lengths x energy "
    "budgets (hill height +- ulps, geometric grid, lap multiples, denormals), compared with the closed-form "
    "cumulative uphill integral of an independently coded energy; hard cores against 60-digit contact times",
    "The oracle is the definition in the property (accumulated positive energy increments along the straight path, "
    "through periodic images for the periodic bound) evaluated on monotone segments; finite/infinite classification "
    "and totality/sign are checked for every lattice point.",
    "Lattice inputs only; identity tolerance 1e-9 E + 1e-11 max|U|; failures for 'extreme' budgets (< 2^-40 |U| or "
    "within 2^-40 of the hill height) are the recorded known finding.", "DESIGN.md §5/C02")

chk("C03", "latx", "exploration",
    "exhaustive evaluation of every potential's real derivative() on lattices of the minimum-image cube (regular grid, "
    "faces, near origin, axis-permuted triples) x directions x speeds x charge pairs x parameters x box lengths, "
    "compared with the analytic derivative of an independently coded energy, a central difference in which the "
    "active unit is moved, and for the periodic Coulomb potential an independently coded Ewald sum; metamorphic "
    "relations (oddness, L-periodicity, splitting independence, linearity) and copy/deepcopy/pickle/dill equality",
    "The lattice contains the points where the C code folds octants / switches images; the independent Ewald sum uses "
    "plain triple sums with a different splitting parameter and larger cut-offs.",
    "Lattice inputs only; tolerance 2e-8 (1/r^2 + 1/L^2) for the lattice sum with the shipped cut-offs.",
    "DESIGN.md §5/C03")
chk("C04", "latx+envx", "exploration",
    "exhaustive lattice evaluation (41^3 / 81^3 nodes x directions x charge signs x box lengths, plus deterministic "
    "pattern search for the supremum) of the real periodic Coulomb potential against the real 1/r bound; acceptance "
    "threshold of the real thinning handlers (also deep-copied, as in handler pools) located by bisection over the "
    "scripted confirmation draw; domination monitored at every thinned event of all <= 1-deviation executions of the "
    "shipped configurations that use this bound",
    "Domination is checked on the actual objects with the shipped prefactors; the confirmation probability is "
    "measured as the exact set of accepted draws, not sampled.",
    "Lattice resolution L/40 (L/80) plus local refinement: a violation confined to a region much smaller than that and "
    "away from the largest ratios can escape.", "DESIGN.md §5/C04")

chk("C01", "latx+envx", "exploration",
    "exhaustive evaluation of the one-leg transition kernel of every interaction event-handler class: on a lattice of "
    "(handler class, potential, box length, charges, geometry, direction) settings the real handler is driven with "
    "scripted energy budgets and confirmation draws; its proposal rate (derivative of the budget-to-time map, located "
    "by bisection) times its acceptance probability (the exact set of accepted uniform draws) is compared with "
    "max(0, q_F) of an independently coded model energy (own Ewald sum); lifting flow balance and cell-veto proposals "
    "are evaluated with the exact oracles of C05 / C18; plus deviation-bounded exploration of the real mediator on all "
    "configurations (end-of-chain resampling, candidates computed from the current state, hard-core states)",
    "Every explored leg is shown to be an exact step of the factorised Metropolis filter for the model energy; "
    "stationarity of the Boltzmann distribution then follows from the event-chain theorem (trusted), it is not "
    "measured: no histograms, no convergence statement.",
    "36 (handler class, potential, box) settings x 2-6 geometries x <= 3 times; real estimators for the cell-bounded "
    "handlers are heuristic bounds (exceeding them is recorded, not judged); tolerance 2e-4 of the rate scale (finite "
    "differences of the budget-to-time map); distributional convergence is outside a bounded exhaustive check (DESIGN "
    "§8).", "DESIGN.md §5/C01")

ENGINES = [
    {"name": "schedx", "path": "jfv/schedx.py", "serves_properties": ["C20"],
     "kind_free_text": "controlled cooperative scheduler over fake multiprocessing primitives; deviation-bounded "
                       "enumeration of schedules of the real multi-process mediator"},
    {"name": "crashx", "path": "jfv/crashx.py", "serves_properties": ["C19"],
     "kind_free_text": "dump-point enumeration: reference run + fresh-interpreter resume of every dump, log equality"},
    {"name": "envx", "path": "jfv/envx.py", "serves_properties": ["C07", "C08", "C09", "C11", "C12", "C13", "C17", "C01",
                                                                    "C04", "C10", "C18"],
     "kind_free_text": "stateless deviation-bounded exploration of the real event loop under a scripted random seam "
                       "(prefix replay on dill-cloned mediators, context-keyed draws, invariant monitors)"},
    {"name": "seqx", "path": "jfv/checks/c06.py", "serves_properties": ["C06", "C13", "C11"],
     "kind_free_text": "explicit-state BFS over operation histories on real objects (rebuilt per transition) against "
                       "a reference model, canonical-state deduplication"},
    {"name": "latx", "path": "jfv/par.py", "serves_properties": ["C14", "C15", "C16", "C05", "C18", "C02", "C03",
                                                                    "C04", "C10", "C01", "C06"],
     "kind_free_text": "exhaustive evaluation of real functions/objects on finite critical-value lattices against "
                       "exact (Fraction / independent) reference models"},
]

NOT_BUILT = "check not built yet in this round (planned, see DESIGN.md §4); not claimed until it runs"


def main():
    checks = []
    for pid in ALL:
        if pid not in CHECKS:
            continue
        c = CHECKS[pid]
        checks.append({
            "property_id": pid,
            "quick_cmd": "./check %s --tier quick" % pid,
            "thorough_cmd": "./check %s --tier thorough" % pid,
            "evidence_file": "/verif/evidence/%s.json" % pid,
            "replay_cmd_template": "./check %s --replay {path}" % pid,
            "engine": c["engine"],
            "level_claimed": {"category": c["category"], "text": c["text"], "design_ref": c["ref"]},
            "level_note": c["note"],
            "technique": c["technique"],
        })
    man = {
        "version": 1,
        "setup_cmd": "./setup.sh",
        "hooks": {
            "guard": "JELLYFYSH_VERIF",
            "enable": "no source hooks: all interposition is done from the harness on public seams "
                      "(random.*, activator/scheduler/state-handler methods, multiprocessing primitives)",
            "baseline_off_cmd": "cd /repo && /venv/bin/python -m pytest -ra -q -p no:cacheprovider --timeout=900 "
                                "--continue-on-collection-errors",
            "source_commits": [],
            "add_only": True,
        },
        "engines": [e for e in ENGINES if any(p in CHECKS for p in e["serves_properties"])],
        "checks": checks,
        "notes": "All checks run the real code of /repo's working tree (extensions rebuilt per run); "
                 "known_findings.json lists recorded and fixed genuine defects.",
        "not_applicable": [{"property_id": p, "reason": NOT_BUILT} for p in ALL if p not in CHECKS],
    }
    with open(os.path.join(HERE, "MANIFEST.json"), "w") as f:
        json.dump(man, f, indent=1)
        f.write("\n")


if __name__ == "__main__":
    main()
