#!/bin/sh
# tools/seedproc.sh <worktree> <a|b> <seed-id>
# Confirm a sub-agent's seeded change myself in its scratch worktree (tests pass with it, demo fails with it, demo
# passes without it) and file it under /verif/seeded/<seed-id>/.
wt="$1"; ab="$2"; id="$3"
src="$wt/_seed/$ab"
[ -f "$src/patch.diff" ] || { echo "no patch in $src"; exit 2; }
demo=$(ls "$src" | grep -E '^demo.*\.py$' | head -1)
rebuild() {
  (cd "$wt" && for f in jellyfysh/scheduler/heap_scheduler/heap_build.py \
     jellyfysh/potential/merged_image_coulomb_potential/merged_image_coulomb_potential_build.py \
     jellyfysh/potential/inverse_power_coulomb_bounding_potential/inverse_power_coulomb_bounding_potential_build.py; do
     /venv/bin/python "$f" >/dev/null 2>&1 || echo "BUILD FAILED $f"; done)
}
git -C "$wt" checkout -q -- jellyfysh
touches_c=$(grep -c '^+++ .*\.[ch]$' "$src/patch.diff")
[ "$touches_c" -gt 0 ] && rebuild
(cd "$wt" && /venv/bin/python "_seed/$ab/$demo" >/tmp/seedproc_$id.orig.log 2>&1); rc_orig=$?
git -C "$wt" apply "$src/patch.diff" || { echo "PATCH DOES NOT APPLY"; exit 2; }
[ "$touches_c" -gt 0 ] && rebuild
(cd "$wt" && /venv/bin/python "_seed/$ab/$demo" >/tmp/seedproc_$id.mut.log 2>&1); rc_mut=$?
(cd "$wt" && /venv/bin/python -m pytest -q -p no:cacheprovider --timeout=900 -x >/tmp/seedproc_$id.test.log 2>&1); rc_test=$?
tests=$(tail -1 /tmp/seedproc_$id.test.log)
git -C "$wt" checkout -q -- jellyfysh
[ "$touches_c" -gt 0 ] && rebuild
echo "seed $id: demo(orig)=$rc_orig demo(mutated)=$rc_mut tests(mutated)=$rc_test [$tests]"
if [ $rc_orig -eq 0 ] && [ $rc_mut -ne 0 ] && [ $rc_test -eq 0 ]; then
  mkdir -p /verif/seeded/$id
  cp "$src/patch.diff" /verif/seeded/$id/patch.diff
  cp "$src/$demo" /verif/seeded/$id/$demo
  [ -f "$src/notes.md" ] && cp "$src/notes.md" /verif/seeded/$id/notes.md
  tail -5 /tmp/seedproc_$id.mut.log > /verif/seeded/$id/demo_output_with_change.txt
  echo "CONFIRMED -> /verif/seeded/$id"
  rm -f /tmp/seedproc_$id.*.log
  exit 0
fi
echo "NOT CONFIRMED (logs /tmp/seedproc_$id.*.log)"
exit 1
