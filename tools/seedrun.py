#!/usr/bin/env python3
"""tools/seedrun.py <seed-id> <check-id> [<check-id> ...] [--tier quick|thorough]
Apply /verif/seeded/<seed-id>/patch.diff to /repo, run the given checks, ALWAYS undo the patch, and record in
meta.json which checks reported a violation."""
import json, os, subprocess, sys, time
args = [a for a in sys.argv[1:] if not a.startswith("--")]
tier = "quick"
if "--tier" in sys.argv:
    tier = sys.argv[sys.argv.index("--tier") + 1]
    args = [a for a in args if a != tier]
seed, checks = args[0], args[1:]
REPO = os.environ.get("SEED_REPO", "/repo")  # a scratch worktree of /repo may be used instead (checks get JFV_REPO)
d = os.path.join("/verif/seeded", seed)
patch = os.path.join(d, "patch_on_fixed_tree.diff")
if not os.path.exists(patch):
    patch = os.path.join(d, "patch.diff")
if subprocess.run(["git", "-C", REPO, "status", "--porcelain", "--untracked-files=no"], capture_output=True, text=True).stdout.strip():
    sys.exit(REPO + " has uncommitted changes; refusing")
r = subprocess.run(["git", "-C", REPO, "apply", "--3way", patch], capture_output=True, text=True)
if r.returncode != 0:
    subprocess.run(["git", "-C", REPO, "reset", "-q", "--hard", "HEAD"])
    sys.exit("patch does not apply: " + r.stderr)
results = {}
try:
    for c in checks:
        t = time.time()
        os.makedirs("/tmp/jfv_seed_evidence", exist_ok=True)
        p = subprocess.run(["./check", c, "--tier", tier], cwd="/verif", capture_output=True, text=True,
                           env=dict(os.environ, JFV_EVIDENCE_DIR="/tmp/jfv_seed_evidence", JFV_REPO=REPO))
        lines = [l for l in p.stdout.splitlines() if l.startswith(("VIOLATION", "  key=", "HARNESS"))][:4]
        results[c] = {"exit": p.returncode, "tier": tier, "wall_s": round(time.time() - t, 1), "first_lines": lines}
        print(seed, c, "exit", p.returncode, "%.1fs" % (time.time() - t))
        for l in lines[:2]:
            print("   ", l[:300])
        if p.returncode not in (0, 1):
            print(p.stdout[-1500:], p.stderr[-1500:])
finally:
    subprocess.run(["git", "-C", REPO, "reset", "-q", "--hard", "HEAD"])
mp = os.path.join(d, "meta.json")
meta = json.load(open(mp)) if os.path.exists(mp) else {"seed": seed, "property": seed.split("-")[0]}
meta.setdefault("checks_run", {}).update(results)
meta["detected_by"] = sorted(c for c, r in meta["checks_run"].items() if r["exit"] == 1)
json.dump(meta, open(mp, "w"), indent=1, sort_keys=True)
