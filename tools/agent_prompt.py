#!/usr/bin/env python3
"""Print the prompt for a mutation sub-agent: property text + worktree path only (nothing from /verif)."""
import json, sys
pid, wt = sys.argv[1], sys.argv[2]
for l in open('/verif/properties.jsonl'):
    p = json.loads(l)
    if p['id'] == pid:
        break
print(f"""You are helping to evaluate a verification effort for JeLLyFysh (a Python application implementing event-chain Monte Carlo, with cffi C extensions). You work ONLY inside your own scratch git worktree of the repository at {wt} (a checkout of the pinned commit with the three C extensions already built in place). Do not read or touch /repo, /verif or any other directory outside {wt} (except /tmp scratch files of your own that you delete afterwards).

Here is a semantic property that the code base is supposed to satisfy:

  Title: {p['title']}
  Statement: {p['statement']}
  Quantified over: {p['quantifier']['text']}
  Code it is anchored in: {', '.join(p['anchors']['files'])}

YOUR TASK: produce TWO different, independent, realistic changes ("seeded bugs") to the source of JeLLyFysh (Python, C, or shipped .ini/config files under jellyfysh/) each of which BREAKS this property while the code still builds and the ENTIRE existing test suite still passes. Think of the kind of slip a maintainer could plausibly make in a refactoring or an optimisation (an off-by-one, a dropped copy, a wrong comparison operator, an update done in the wrong order, a missing entry in a config list, a stale cache, swapped arguments, a forgotten special case ...). Each change must need something SPECIFIC in order to manifest -- a particular multi-step sequence of operations, an unusual or boundary input, a particular interleaving/arrival order, a dump/crash at a particular point, or two cooperating sites that each look fine alone -- NOT something ordinary use would expose at once (e.g. not "every run crashes immediately", not something that makes all results grossly wrong). Keep each change small (a few lines). The two changes should attack different mechanisms/places if possible. Consider ALL the anchored files and the code they call (not only the first or most obvious one), and prefer a less obvious site or interaction over the first idea that comes to mind: three other teams have already tried the obvious and the next-most-obvious slips for this property (comparison operators, off-by-one in the central routine, a dropped copy, swapped constructor arguments in __setstate__, re-inserting heap entries through push_event on unpickling, a tag missing from one create/trash list of a shipped .ini file, a cache that survives reset): find something DIFFERENT from all of these -- e.g. an interaction between two modules that each look fine, a rarely taken branch (periodic wrap, last cell, zero or negative values, composite objects with 3 point masses, more than 2 units in a cell, counter overflow), an ordering assumption between two calls, arithmetic that is only wrong for non-cubic boxes or box lengths other than 1, or a change in the C code.

For each change (call them a and b) deliver, inside {wt}/_seed/a/ and {wt}/_seed/b/ :
  1. patch.diff  -- produced with `git -C {wt} diff -- jellyfysh > _seed/a/patch.diff` (relative to the pinned commit, only the seeded change, applying cleanly with `git apply` at the repo root; do not include _seed, compiled files or test changes),
  2. demo.py (or demo_test.py) -- a small self-contained program run as `cd {wt} && /venv/bin/python _seed/a/demo.py` that exits 0 when the property holds for its scenario (i.e. on the ORIGINAL code) and exits non-zero (with a short explanation printed) when run with the change applied. It must `import sys; sys.path.insert(0, "{wt}")` before importing jellyfysh so that the worktree's code (not an installed copy) is imported,
  3. notes.md -- 5-15 lines: what the change is, why it breaks the property, what exactly is needed for it to manifest, and why the existing tests do not notice.

How to work:
  * Read the code first (start with the anchored files). Understand the mechanism that makes the property hold.
  * Run the test suite with:  cd {wt} && /venv/bin/python -m pytest -q -p no:cacheprovider --timeout=900 -x    (about 1 minute; 728 tests pass on the pristine tree). It MUST still pass completely with each change applied (each change alone).
  * If you change a .c file, rebuild that extension from the worktree root, e.g. `cd {wt} && /venv/bin/python jellyfysh/scheduler/heap_scheduler/heap_build.py` (similarly merged_image_coulomb_potential_build.py, inverse_power_coulomb_bounding_potential_build.py), and rebuild again after reverting.
  * Verify yourself, for each change: (i) tests pass with the change, (ii) demo fails with the change, (iii) after `git -C {wt} checkout -- jellyfysh` (and rebuild if C changed) demo passes. Apply only one change at a time. Leave the worktree's tracked files in the ORIGINAL (reverted) state when you finish; only the _seed directory remains.
  * No network access is available. Python is /venv/bin/python (3.12). MDAnalysis is not installed (config files with pdb input cannot be run).
  * Do not weaken, delete or edit existing tests. Do not add hooks or instrumentation.

Final answer: a short report listing, for a and b, the files changed, one sentence on the bug, what it needs to manifest, and confirmation of the three verification steps (tests pass with change / demo fails with change / demo passes without). If you could only produce one valid change, say so.""")
