#!/usr/bin/env python3
"""Generate MUTATIONS.md from seeded/*/meta.json and notes.md."""
import glob, json, os, re
rows = []
for d in sorted(glob.glob('/verif/seeded/*')):
    sid = os.path.basename(d)
    meta = json.load(open(os.path.join(d, 'meta.json'))) if os.path.exists(os.path.join(d, 'meta.json')) else {}
    notes = open(os.path.join(d, 'notes.md')).read() if os.path.exists(os.path.join(d, 'notes.md')) else ''
    files = sorted(set(re.findall(r'^\+\+\+ b/(\S+)', open(os.path.join(d, 'patch.diff')).read(), flags=re.M)))
    first = next((l.strip() for l in notes.splitlines() if l.strip() and not l.startswith('#')), '')
    det = meta.get('detected_by', [])
    runs = meta.get('checks_run', {})
    cells = []
    for c, r in sorted(runs.items()):
        mark = {1: 'VIOLATION', 0: 'silent', 2: 'harness-error'}.get(r['exit'], str(r['exit']))
        key = ''
        for l in r.get('first_lines', []):
            m = re.search(r'key=([^:]+):', l)
            if m:
                key = ' (`%s`)' % m.group(1)
                break
        cells.append('%s %s: %s%s' % (c, r.get('tier', 'quick'), mark, key))
    own = runs.get(sid.split('-')[0], {}).get('exit') == 1
    rows.append((sid, ', '.join(os.path.basename(f) for f in files), first[:220].replace('|', '/'), '; '.join(cells), 'yes' if det else 'NO', 'yes' if own else 'NO'))
with open('/verif/MUTATIONS.md', 'w') as f:
    f.write('# Seeded changes and what the checks report\n\n')
    f.write('Each change keeps the 728 repository tests green and breaks the property named by its id; it was produced by a '
            'sub-agent that saw only the property text, confirmed in a scratch worktree, and is stored under `seeded/<id>/`. '
            '`tools/seedrun.py <id> <checks>` applies it to /repo, runs the checks and reverts. Columns: files touched, '
            'first line of the author\'s notes, result of every check that was run against it (the reported violation '
            'class in brackets), detected by at least one check.\n\n')
    f.write('| seed | files | what it does | checks run | detected | by its own property\'s check |\n|---|---|---|---|---|---|\n')
    for r in rows:
        f.write('| %s | %s | %s | %s | %s | %s |\n' % r)
    n = sum(1 for r in rows if r[4] == 'yes')
    f.write('\n%d of %d seeded changes are detected by at least one check, %d by the check of the property they were written against.\n' % (n, len(rows), sum(1 for r in rows if r[5] == 'yes')))
print(open('/verif/MUTATIONS.md').read()[-300:])
