#!/bin/sh
# tools/withpatch.sh <patch.diff> <command...>: apply a patch to /repo, run the command, always undo the patch.
patch="$1"; shift
git -C /repo apply "$patch" || { echo "patch does not apply"; exit 3; }
trap 'git -C /repo checkout -- . ; git -C /repo clean -fdq -- jellyfysh unittests >/dev/null 2>&1' EXIT INT TERM
"$@"
rc=$?
echo "exit=$rc"
exit $rc
