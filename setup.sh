#!/bin/sh
# Offline setup: nothing to build ahead of time (every check rebuilds what it needs from /repo's working tree);
# only verify that the toolchain the checks rely on is present.
set -e
/venv/bin/python -c "import dill, cffi, sys; print('python', sys.version.split()[0], 'dill', dill.__version__, 'cffi', cffi.__version__)"
gcc --version | head -1
clang --version | head -1 || echo "clang missing: the sanitizer driver of C06 will be skipped and reported"
mkdir -p /verif/evidence /verif/replays
echo setup ok
